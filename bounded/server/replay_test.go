package server

import (
	"net/http"
	"strconv"
	"strings"
	"testing"
)

// requestIsPass (C03): only GET and HEAD may be answered from or stored in the cache.
func TestBoundedRequestIsPass(t *testing.T) {
	for _, m := range []string{"GET", "HEAD", "POST", "PUT", "PATCH", "DELETE", "OPTIONS", "TRACE", "CONNECT", "get", "PURGE", ""} {
		req, _ := http.NewRequest("GET", "http://h/", nil)
		req.Method = m
		want := !(m == "GET" || m == "HEAD")
		if requestIsPass(req) != want {
			t.Fatalf("method %q: pass=%v want %v", m, requestIsPass(req), want)
		}
	}
	t.Logf("BOUNDED requestIsPass: 12 methods")
}

// getCacheMaxAge (C03) against the statement: 0 with any Set-Cookie, with no Cache-Control, or with
// no-cache/no-store/private in any letter case; otherwise s-maxage (preferred) or max-age, minus Age.
func TestBoundedCacheMaxAge(t *testing.T) {
	ccs := []string{"", "max-age=60", "public, max-age=60", "s-maxage=30, max-age=60", "max-age=60, s-maxage=30", "no-cache", "No-Cache", "NO-STORE, max-age=60",
		"Private, max-age=60", "max-age=60, PRIVATE", "max-age=0", "s-maxage=0, max-age=60", "max-age=abc", "public", "max-age=60,no-store", "MAX-AGE=60", "max-age=60;;private", "public;;no-store;;max-age=60", "max-age=60;;s-maxage=30"}
	cookies := [][]string{nil, {"a=b"}, {""}, {"", "a=b"}, {"a=b", "c=d"}}
	ages := []string{"", "0", "10", "100", "x"}
	n := 0
	for _, cc := range ccs {
		for _, ck := range cookies {
			for _, age := range ages {
				h := http.Header{}
				if cc != "" {
					// a value with ";;" stands for a header sent on two lines
					for _, line := range strings.Split(cc, ";;") {
						h.Add("Cache-Control", line)
					}
				}
				for _, c := range ck {
					h.Add("Set-Cookie", c)
				}
				if age != "" {
					h.Set("Age", age)
				}
				got := getCacheMaxAge(h)
				cc = strings.ReplaceAll(cc, ";;", ",")
				lower := strings.ToLower(cc)
				forbidden := len(ck) > 0 || cc == "" || strings.Contains(lower, "no-cache") || strings.Contains(lower, "no-store") || strings.Contains(lower, "private")
				if forbidden {
					if got != 0 {
						t.Fatalf("Cache-Control %q Set-Cookie %q Age %q: lifetime %d, must be 0", cc, ck, age, got)
					}
					n++
					continue
				}
				// the value clause is only checked for the plain lower-case spellings the code documents
				want := -1
				if i := strings.Index(cc, "s-maxage="); i >= 0 {
					want = leadingInt(cc[i+len("s-maxage="):])
				} else if i := strings.Index(cc, "max-age="); i >= 0 {
					want = leadingInt(cc[i+len("max-age="):])
				}
				if want >= 0 {
					a, _ := strconv.Atoi(age)
					if got != want-a {
						t.Fatalf("Cache-Control %q Age %q: lifetime %d want %d", cc, age, got, want-a)
					}
				}
				n++
			}
		}
	}
	t.Logf("BOUNDED getCacheMaxAge: %d header combinations (19 Cache-Control values in mixed case, some split over several header lines, x 5 Set-Cookie lists x 5 Age values)", n)
}

func leadingInt(s string) int {
	i := 0
	for i < len(s) && s[i] >= '0' && s[i] <= '9' {
		i++
	}
	if i == 0 {
		return -1
	}
	v, _ := strconv.Atoi(s[:i])
	return v
}
