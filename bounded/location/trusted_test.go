package location

import (
	"net/http"
	"net/url"
	"reflect"
	"sort"
	"testing"
)

// BOUNDED STAND-IN for the trusted Location.AddQuery: every request query with up to 2 parameters and every
// configured query with up to 2 keys x up to 2 values over a small alphabet. Expected: for each key the
// values already in the request followed by the configured values, in order; other keys untouched.
func TestBoundedAddQuery(t *testing.T) {
	keys := []string{"a", "b"}
	vals := []string{"", "x", "y z"}
	var valLists [][]string
	valLists = append(valLists, nil)
	for _, v := range vals {
		valLists = append(valLists, []string{v})
		for _, w := range vals {
			valLists = append(valLists, []string{v, w})
		}
	}
	n := 0
	for _, ra := range valLists {
		for _, rb := range valLists {
			for _, qa := range valLists {
				for _, qb := range valLists {
					reqQ := url.Values{}
					if ra != nil {
						reqQ[keys[0]] = ra
					}
					if rb != nil {
						reqQ[keys[1]] = rb
					}
					cfg := url.Values{}
					if qa != nil {
						cfg[keys[0]] = qa
					}
					if qb != nil {
						cfg[keys[1]] = qb
					}
					l := &Location{Query: cfg}
					req, _ := http.NewRequest("GET", "http://h/p?"+reqQ.Encode(), nil)
					if l.ShouldModifyQuery() != (len(cfg) != 0) {
						t.Fatalf("ShouldModifyQuery wrong for %v", cfg)
					}
					l.AddQuery(req)
					got := req.URL.Query()
					for _, k := range keys {
						want := append(append([]string{}, reqQ[k]...), cfg[k]...)
						if len(want) == 0 {
							want = nil
						}
						g := got[k]
						if len(g) == 0 {
							g = nil
						}
						if !reflect.DeepEqual(g, want) {
							t.Fatalf("request %v + configured %v: key %q = %v, want %v", reqQ, cfg, k, g, want)
						}
					}
					n++
				}
			}
		}
	}
	t.Logf("BOUNDED AddQuery (stand-in for a trusted function): %d (request query, configured query) pairs, 2 keys, up to 2 values each from {\"\",x,\"y z\"}", n)
}

// BOUNDED STAND-IN for the trusted Location.mergeHeader (through AddRequestHeader/AddResponseHeader):
// the destination gets, per canonical key, its old values followed by the source's values.
func TestBoundedMergeHeader(t *testing.T) {
	names := []string{"X-A", "x-b"}
	lists := [][]string{nil, {"1"}, {"1", "2"}, {""}}
	n := 0
	for _, da := range lists {
		for _, db := range lists {
			for _, sa := range lists {
				for _, sb := range lists {
					dst := http.Header{}
					src := http.Header{}
					for _, v := range da {
						dst.Add(names[0], v)
					}
					for _, v := range db {
						dst.Add(names[1], v)
					}
					for _, v := range sa {
						src.Add(names[0], v)
					}
					for _, v := range sb {
						src.Add(names[1], v)
					}
					old := dst.Clone()
					l := &Location{RequestHeader: src, ResponseHeader: src}
					l.AddRequestHeader(dst)
					for _, k := range names {
						want := append(append([]string{}, old.Values(k)...), src.Values(k)...)
						if !reflect.DeepEqual(append([]string{}, dst.Values(k)...), want) && !(len(want) == 0 && len(dst.Values(k)) == 0) {
							t.Fatalf("dst %v + src %v: %q = %v want %v", old, src, k, dst.Values(k), want)
						}
					}
					n++
				}
			}
		}
	}
	t.Logf("BOUNDED mergeHeader (stand-in for a trusted function): %d (destination, source) header pairs, 2 names, up to 2 values", n)
}

// BOUNDED check of the rewrite semantics assumed from the regexp library: the documented rule forms.
func TestBoundedRewriter(t *testing.T) {
	cases := []struct{ rule, in, out string }{
		{"/api/*:/$1", "/api/users/1", "/users/1"},
		{"/api/*:/$1", "/other", "/other"},
		{"/rest/*/user/*:/$1/$2", "/rest/v1/user/tree", "/v1/tree"},
		{"/a/*/b/*/c/*:/$3/$2/$1", "/a/1/b/2/c/3", "/3/2/1"},
		{"^/old/(.*):/new/$1", "/old/x/y", "/new/x/y"},
		{"/x/*:/y/$1", "/x/", "/y/"},
	}
	for _, c := range cases {
		rw := generateURLRewriter([]string{c.rule})
		req, _ := http.NewRequest("GET", "http://h"+c.in, nil)
		if rw != nil {
			rw(req)
		}
		if req.URL.Path != c.out {
			t.Fatalf("rule %q on %q: got %q want %q", c.rule, c.in, req.URL.Path, c.out)
		}
	}
	t.Logf("BOUNDED rewriter: %d documented rule/path cases (1, 2 and 3 wildcards, explicit regexp, empty capture)", len(cases))
}

// BOUNDED validation of the assumed sort.Slice call-site contract used by Locations.Set: the published
// list is a permutation of the input sorted by priority.
func TestBoundedSortLocations(t *testing.T) {
	hosts := [][]string{nil, {"a.com"}}
	prefixes := [][]string{nil, {"/p"}, {"/p", "/q"}}
	var all []Location
	for _, h := range hosts {
		for _, p := range prefixes {
			all = append(all, Location{Name: "l", Hosts: h, Prefixes: p})
		}
	}
	n := 0
	idx := []int{0, 1, 2, 3, 4, 5}
	var perm func(k int)
	perm = func(k int) {
		if k == len(idx) {
			in := make([]Location, len(idx))
			for i, j := range idx {
				in[i] = all[j]
				in[i].Name = string(rune('a' + j))
			}
			ls := NewLocations()
			ls.Set(in)
			got := ls.GetLocations()
			if len(got) != len(in) {
				t.Fatalf("length %d != %d", len(got), len(in))
			}
			var names []string
			for i, l := range got {
				names = append(names, l.Name)
				if i > 0 && got[i-1].getPriority() > l.getPriority() {
					t.Fatalf("not sorted: %v", names)
				}
			}
			sort.Strings(names)
			if !reflect.DeepEqual(names, []string{"a", "b", "c", "d", "e", "f"}) {
				t.Fatalf("not a permutation: %v", names)
			}
			n++
			return
		}
		for i := k; i < len(idx); i++ {
			idx[k], idx[i] = idx[i], idx[k]
			perm(k + 1)
			idx[k], idx[i] = idx[i], idx[k]
		}
	}
	perm(0)
	t.Logf("BOUNDED sort.Slice in Locations.Set: all %d orders of 6 locations covering every host/prefix specificity class", n)
}
