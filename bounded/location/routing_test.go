package location

import (
	"strings"
	"testing"
)

// Routing (C14) against the statement: among the locations a server lists, the one whose host list
// contains the request host and whose prefix list has a prefix of the URL wins by specificity
// (host+prefix > prefix > host > none); a location matches iff (no hosts or host listed) and
// (no prefixes or some prefix is a prefix of the URL).
func TestBoundedRouting(t *testing.T) {
	hostSets := [][]string{nil, {"a.com"}, {"b.com"}, {"a.com", "b.com"}}
	prefixSets := [][]string{nil, {"/api"}, {"/api/users"}, {"/"}, {"/x", "/api"}}
	var locs []Location
	for i, h := range hostSets {
		for j, p := range prefixSets {
			locs = append(locs, Location{Name: string(rune('a'+i)) + string(rune('a'+j)), Hosts: h, Prefixes: p})
		}
	}
	reqHosts := []string{"a.com", "b.com", "c.com", ""}
	urls := []string{"/", "/api", "/api/users/1", "/apix", "/x/y", "/other", ""}
	match := func(l *Location, host, url string) bool {
		if len(l.Hosts) != 0 {
			found := false
			for _, h := range l.Hosts {
				if h == host {
					found = true
				}
			}
			if !found {
				return false
			}
		}
		if len(l.Prefixes) != 0 {
			found := false
			for _, p := range l.Prefixes {
				if strings.HasPrefix(url, p) {
					found = true
				}
			}
			if !found {
				return false
			}
		}
		return true
	}
	class := func(l *Location) int {
		c := 0
		if len(l.Hosts) != 0 {
			c += 1
		}
		if len(l.Prefixes) != 0 {
			c += 2
		}
		return c // 3 host+prefix, 2 prefix, 1 host, 0 none
	}
	n := 0
	// every pair and triple of locations, in both orders
	for i := range locs {
		for j := range locs {
			if i == j {
				continue
			}
			ls := NewLocations()
			ls.Set([]Location{locs[i], locs[j]})
			names := []string{locs[i].Name, locs[j].Name}
			for _, h := range reqHosts {
				for _, u := range urls {
					got := ls.Get(h, u, names...)
					for k := range []int{i, j} {
						l := &locs[[]int{i, j}[k]]
						if l.Match(h, u) != match(l, h, u) {
							t.Fatalf("Match(%q,%q) of %+v", h, u, l)
						}
					}
					best := -1
					for _, k := range []int{i, j} {
						if match(&locs[k], h, u) && (best < 0 || class(&locs[k]) > class(&locs[best])) {
							best = k
						}
					}
					if best < 0 {
						if got != nil {
							t.Fatalf("host %q url %q: %s chosen, nothing matches", h, u, got.Name)
						}
					} else if got == nil || class(got) != class(&locs[best]) || !match(got, h, u) {
						t.Fatalf("host %q url %q among %v: got %v, want class %d", h, u, names, got, class(&locs[best]))
					}
					n++
				}
			}
		}
	}
	t.Logf("BOUNDED routing: %d lookups (all ordered pairs of 20 locations x 4 hosts x 7 URLs): match definition and specificity order", n)
}
