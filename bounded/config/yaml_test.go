package config

import (
	"reflect"
	"testing"

	"gopkg.in/yaml.v2"
)

// Bounded validation of the YAML round trip that C17 assumes: accepted configurations whose names and
// values need YAML quoting (booleans, numbers, nulls, colons, leading special characters, non-ASCII)
// come back field for field after Marshal/Unmarshal.
func TestBoundedYAML(t *testing.T) {
	tricky := []string{"yes", "no", "true", "null", "~", "123", "1e3", "0x10", "a: b", "- x", "#c", "'q'", "\"d\"", "é", "a b", "*", "&a", "!t", "@h", "`b`", "%p", "|", ">", "", " lead", "trail ", "multi\nline", "tab\t"}
	n := 0
	for _, s := range tricky {
		for _, u := range []string{"up", s} {
			c := &PikeConfig{
				Admin:      AdminConfig{User: "adm" + s, Password: "secret" + s, Remark: s},
				Compresses: []CompressConfig{{Name: "c" + s, Levels: map[string]uint{"gzip": 6, "br": 11}, Remark: s}},
				Caches:     []CacheConfig{{Name: "cache" + s, Size: 100, HitForPass: "5m", Store: "badger:///tmp/x", Remark: s}},
				Upstreams: []UpstreamConfig{{Name: u, HealthCheck: "/ping", Policy: "roundRobin", EnableH2C: true, AcceptEncoding: "gzip, br",
					Servers: []UpstreamServerConfig{{Addr: "http://127.0.0.1:3001"}, {Addr: "http://127.0.0.1:3002", Backup: true}}, Remark: s}},
				Locations: []LocationConfig{{Name: "loc" + s, Upstream: u, Prefixes: []string{"/api", "/" + s}, Rewrites: []string{"/api/*:/$1"},
					QueryStrings: []string{"id:" + s}, RespHeaders: []string{"X-A:" + s}, ReqHeaders: []string{"X-B:1"}, Hosts: []string{"a.com"}, ProxyTimeout: "10s", Remark: s}},
				Servers: []ServerConfig{{LogFormat: s, Addr: ":3015", Locations: []string{"loc" + s}, Cache: "cache" + s, Compress: "c" + s,
					CompressMinLength: "1kb", CompressContentTypeFilter: "text|json", Remark: s}},
			}
			data, err := yaml.Marshal(c)
			if err != nil {
				t.Fatalf("marshal with %q: %v", s, err)
			}
			back := &PikeConfig{}
			if err := yaml.Unmarshal(data, back); err != nil {
				t.Fatalf("unmarshal with %q: %v\n%s", s, err, data)
			}
			if !reflect.DeepEqual(c, back) {
				t.Fatalf("value %q does not survive the YAML round trip:\nwant %+v\ngot  %+v\nyaml:\n%s", s, c, back, data)
			}
			n++
		}
	}
	t.Logf("BOUNDED yaml round trip: %d full configurations, %d values needing quoting in every string position", n, len(tricky))
}
