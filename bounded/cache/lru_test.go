package cache

import (
	"fmt"
	"testing"

	"github.com/golang/groupcache/lru"
)

// Bounded validation of the assumed groupcache/lru contract (libspec/00_base.spec):
// every sequence of up to 6 operations (Add/Get/Remove) over 3 keys, MaxEntries 1..3.
// Checked against a reference map + recency list.
func TestBoundedLRU(t *testing.T) {
	type op struct{ kind, key int }
	var ops []op
	for kind := 0; kind < 3; kind++ {
		for key := 0; key < 3; key++ {
			ops = append(ops, op{kind, key})
		}
	}
	count := 0
	var rec func(seq []op, depth int)
	check := func(max int, seq []op) {
		c := lru.New(max)
		var order []int // least recent first
		vals := map[int]string{}
		touch := func(k int) {
			for i, x := range order {
				if x == k {
					order = append(order[:i], order[i+1:]...)
					break
				}
			}
			order = append(order, k)
		}
		for step, o := range seq {
			switch o.kind {
			case 0:
				v := fmt.Sprintf("v%d_%d", o.key, step)
				c.Add(o.key, v)
				vals[o.key] = v
				touch(o.key)
				if len(order) > max {
					delete(vals, order[0])
					order = order[1:]
				}
			case 1:
				got, ok := c.Get(o.key)
				want, wok := vals[o.key]
				if ok != wok || (ok && got.(string) != want) {
					t.Fatalf("max=%d seq=%v step=%d: Get(%d) = %v,%v want %v,%v", max, seq, step, o.key, got, ok, want, wok)
				}
				if ok {
					touch(o.key)
				}
			case 2:
				c.Remove(o.key)
				if _, ok := vals[o.key]; ok {
					delete(vals, o.key)
					for i, x := range order {
						if x == o.key {
							order = append(order[:i], order[i+1:]...)
							break
						}
					}
				}
			}
			if c.Len() != len(vals) || c.Len() > max {
				t.Fatalf("max=%d seq=%v step=%d: Len=%d want %d (<= %d)", max, seq, step, c.Len(), len(vals), max)
			}
		}
		count++
	}
	rec = func(seq []op, depth int) {
		for max := 1; max <= 3; max++ {
			check(max, seq)
		}
		if depth == 0 {
			return
		}
		for _, o := range ops {
			rec(append(append([]op{}, seq...), o), depth-1)
		}
	}
	rec(nil, 5)
	t.Logf("BOUNDED lru: %d (sequence, capacity) cases, sequences up to length 5 over 3 keys, capacity 1..3", count)
}
