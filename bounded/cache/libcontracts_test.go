package cache

import (
	"bytes"
	"encoding/binary"
	"encoding/json"
	"net/http"
	"reflect"
	"regexp"
	"testing"
	"unicode/utf8"
)

// Bounded validation of the assumed encoding/json contract for header maps (json-roundtrip axiom):
// valid UTF-8 names and values survive, including multi-valued, empty and non-ASCII ones.
// It also reproduces the recorded known finding: a value that is not valid UTF-8 does not survive.
func TestBoundedJSONHeader(t *testing.T) {
	vals := []string{"", "a", "café", "日本", "a,b", "\"q\"", "\\", "<&>", " ", "x\ty", string([]byte{0x7f})}
	n := 0
	for _, a := range vals {
		for _, b := range vals {
			h := http.Header{"X-One": {a}, "X-Two": {a, b}, b + "k": {b}}
			data, err := json.Marshal(h)
			if err != nil {
				t.Fatalf("marshal %v: %v", h, err)
			}
			var back http.Header
			if err := json.Unmarshal(data, &back); err != nil {
				t.Fatalf("unmarshal: %v", err)
			}
			if !reflect.DeepEqual(h, back) {
				t.Fatalf("header %v came back as %v", h, back)
			}
			n++
		}
	}
	bad := "caf\xe9"
	if utf8.ValidString(bad) {
		t.Fatal("test value should be invalid UTF-8")
	}
	data, _ := json.Marshal(http.Header{"X": {bad}})
	var back http.Header
	_ = json.Unmarshal(data, &back)
	if back.Get("X") == bad {
		t.Logf("BOUNDED note: the known finding lemma/header-roundtrip no longer reproduces (invalid UTF-8 survived)")
	} else {
		t.Logf("BOUNDED known finding reproduced on the real library: header value %q is restored as %q", bad, back.Get("X"))
	}
	t.Logf("BOUNDED json header round trip: %d header maps (11 x 11 values incl. empty, non-ASCII, quotes, control chars; multi-valued; odd key names)", n)
}

// Bounded validation of the byte-buffer contracts of libspec/30_bytes.spec against the real library.
func TestBoundedBufferAlgebra(t *testing.T) {
	n := 0
	for size := 0; size <= 12; size++ {
		data := make([]byte, size)
		for i := range data {
			data[i] = byte(i + 1)
		}
		for k := 0; k <= 14; k++ {
			b := bytes.NewBuffer(append([]byte{}, data...))
			got := b.Next(k)
			m := k
			if m > size {
				m = size
			}
			if !bytes.Equal(got, data[:m]) || b.Len() != size-m {
				t.Fatalf("Next(%d) on %d bytes: got %v rest %d", k, size, got, b.Len())
			}
			n++
		}
		b := bytes.NewBuffer(append([]byte{}, data...))
		var v32 uint32
		err := binary.Read(b, binary.BigEndian, &v32)
		if (err == nil) != (size >= 4) {
			t.Fatalf("binary.Read uint32 on %d bytes: err=%v", size, err)
		}
		if err == nil && (v32 != binary.BigEndian.Uint32(data[:4]) || b.Len() != size-4) {
			t.Fatalf("binary.Read uint32 value/rest wrong")
		}
		b = bytes.NewBuffer(append([]byte{}, data...))
		var v64 uint64
		err = binary.Read(b, binary.BigEndian, &v64)
		if (err == nil) != (size >= 8) {
			t.Fatalf("binary.Read uint64 on %d bytes: err=%v", size, err)
		}
		n += 2
	}
	for _, v := range []uint32{0, 1, 255, 256, 65535, 1 << 31, 1<<32 - 1} {
		buf := make([]byte, 4)
		binary.BigEndian.PutUint32(buf, v)
		if binary.BigEndian.Uint32(buf) != v {
			t.Fatalf("be32 inverse")
		}
		n++
	}
	parts := [][]byte{{1}, {}, {2, 3}, {}, {4}}
	if !bytes.Equal(bytes.Join(parts, []byte("")), []byte{1, 2, 3, 4}) {
		t.Fatalf("Join with empty separator")
	}
	t.Logf("BOUNDED bytes.Buffer.Next / binary.Read / PutUint32 / Join: %d cases (buffers of 0..12 bytes, requests 0..14)", n)
}

// Bounded validation of the header model of libspec/15_http.spec (canonical keys, Add appends, Get is the
// first value, Values the list, Set replaces, Del removes) against net/http.
func TestBoundedHeaderModel(t *testing.T) {
	type op struct {
		kind int
		k, v string
	}
	keys := []string{"x-a", "X-A", "X-B"}
	vals := []string{"", "1"}
	var ops []op
	for kind := 0; kind < 3; kind++ {
		for _, k := range keys {
			for _, v := range vals {
				ops = append(ops, op{kind, k, v})
				if kind == 2 {
					break
				}
			}
		}
	}
	n := 0
	var rec func(seq []op, depth int)
	rec = func(seq []op, depth int) {
		h := http.Header{}
		model := map[string][]string{}
		for _, o := range seq {
			ck := http.CanonicalHeaderKey(o.k)
			switch o.kind {
			case 0:
				h.Add(o.k, o.v)
				model[ck] = append(model[ck], o.v)
			case 1:
				h.Set(o.k, o.v)
				model[ck] = []string{o.v}
			case 2:
				h.Del(o.k)
				delete(model, ck)
			}
		}
		for _, k := range keys {
			ck := http.CanonicalHeaderKey(k)
			want := model[ck]
			if !reflect.DeepEqual(append([]string{}, h.Values(k)...), append([]string{}, want...)) {
				t.Fatalf("seq %v: Values(%q)=%v want %v", seq, k, h.Values(k), want)
			}
			first := ""
			if len(want) > 0 {
				first = want[0]
			}
			if h.Get(k) != first {
				t.Fatalf("seq %v: Get(%q)=%q want %q", seq, k, h.Get(k), first)
			}
		}
		n++
		if depth == 0 {
			return
		}
		for _, o := range ops {
			rec(append(append([]op{}, seq...), o), depth-1)
		}
	}
	rec(nil, 3)
	t.Logf("BOUNDED http.Header model: %d operation sequences up to length 3 (Add/Set/Del over 3 spellings of 2 keys, 2 values)", n)
}

// Bounded validation of the assumed regexp contract used when a stored filter is restored:
// Compile(re.String()) accepts and matches what re matched.
func TestBoundedRegexpString(t *testing.T) {
	pats := []string{"text|javascript|json|wasm|xml", "^image/", "a.c", "[a-z]+/[a-z0-9.+-]+", "(?i)json"}
	ins := []string{"", "text/html", "application/json", "IMAGE/PNG", "image/png", "abc", "a.c", "application/wasm", "JSON"}
	n := 0
	for _, p := range pats {
		re := regexp.MustCompile(p)
		re2, err := regexp.Compile(re.String())
		if err != nil {
			t.Fatalf("Compile(String()) of %q: %v", p, err)
		}
		for _, s := range ins {
			if re.MatchString(s) != re2.MatchString(s) {
				t.Fatalf("pattern %q input %q: restored filter differs", p, s)
			}
			n++
		}
	}
	t.Logf("BOUNDED regexp Compile(String()): %d (pattern, input) pairs", n)
}
