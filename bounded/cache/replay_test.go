package cache

import (
	"bytes"
	"math/rand"
	"net/http"
	"os"
	"reflect"
	"regexp"
	"strconv"
	"testing"
	"time"

	"github.com/vicanso/pike/config"
)

// Search for a concrete failing input of NewDispatcher (C11): for every configured size the shards'
// limits are >= 1 and add up to at most the size.
func TestBoundedNewDispatcher(t *testing.T) {
	sizes := []int{}
	for s := 1; s <= 3000; s++ {
		sizes = append(sizes, s)
	}
	sizes = append(sizes, 4095, 4096, 4097, 12800, 65535, 65536, 1000003, 1<<31-1)
	for _, s := range sizes {
		d := NewDispatcher(DispatcherOption{Size: s})
		total := 0
		if uint64(len(d.list)) != d.zoneSize || len(d.list) == 0 {
			t.Fatalf("Size=%d: %d shards, zoneSize %d", s, len(d.list), d.zoneSize)
		}
		for i, l := range d.list {
			if l == nil || l.cache == nil || l.cache.MaxEntries < 1 {
				t.Fatalf("Size=%d: shard %d has limit %v (0 means unlimited)", s, i, l.cache.MaxEntries)
			}
			total += l.cache.MaxEntries
		}
		if total > s {
			t.Fatalf("Size=%d: shard limits add up to %d", s, total)
		}
	}
	t.Logf("BOUNDED NewDispatcher: %d sizes (1..3000 and 8 large ones): limits >= 1, sum <= Size", len(sizes))
}

// HitForPass (C07): the marker lasts ttl seconds, or 300 when ttl <= 0.
func TestBoundedHitForPassTTL(t *testing.T) {
	for _, ttl := range []int{-5, -1, 0, 1, 2, 59, 300, 301, 86400} {
		hc := NewHTTPCache()
		hc.status = StatusFetching
		before := time.Now().Unix()
		hc.HitForPass(ttl)
		after := time.Now().Unix()
		want := int64(ttl)
		if ttl <= 0 {
			want = 300
		}
		if hc.status != StatusHitForPass || hc.expiredAt < before+want || hc.expiredAt > after+want {
			t.Fatalf("HitForPass(%d): status %v expiredAt-now in [%d,%d], want %d", ttl, hc.status, hc.expiredAt-after, hc.expiredAt-before, want)
		}
	}
	t.Logf("BOUNDED HitForPass ttl: 9 values incl. negative, 0, 1 and large")
}

// Configured period (C07): the text of config.CacheConfig.HitForPass reaches GetHitForPass as whole seconds.
func TestBoundedConfiguredPeriod(t *testing.T) {
	texts := []string{"", "0s", "1s", "30s", "59s", "90s", "1m", "1m30s", "1.5s", "1500ms", "999ms", "2h", "2h45m7s", "100h", "-5s", "x"}
	for n := 1; n <= 3; n++ {
		for _, txt := range texts {
			cfgs := make([]config.CacheConfig, n)
			for i := range cfgs {
				cfgs[i] = config.CacheConfig{Name: "c" + strconv.Itoa(i), Size: 100, HitForPass: "7s"}
			}
			cfgs[n-1].HitForPass = txt
			d, _ := time.ParseDuration(txt)
			want := int(d / time.Second)
			opts := convertConfigs(cfgs)
			if len(opts) != n || opts[n-1].HitForPass != want {
				t.Fatalf("convertConfigs: HitForPass %q at index %d of %d -> %d seconds, want %d", txt, n-1, n, opts[n-1].HitForPass, want)
			}
			if got := NewDispatcher(opts[n-1]).GetHitForPass(); got != want {
				t.Fatalf("NewDispatcher(HitForPass %q).GetHitForPass() = %d, want %d", txt, got, want)
			}
		}
	}
	t.Logf("BOUNDED configured hit-for-pass period: %d texts x 3 list lengths", len(texts))
}

func genResp(r *rand.Rand, size int) *HTTPResponse {
	body := make([]byte, size)
	r.Read(body)
	resp := &HTTPResponse{
		CompressSrv:       []string{"", "best", "x"}[r.Intn(3)],
		CompressMinLength: []int{0, 1, 1024, 1 << 20}[r.Intn(4)],
		StatusCode:        []int{200, 204, 301, 404, 500}[r.Intn(5)],
		Header:            http.Header{"Content-Type": {"text/html; charset=utf-8"}, "X-Multi": {"a", "", "ü"}},
	}
	if r.Intn(2) == 0 {
		resp.CompressContentTypeFilter = regexp.MustCompile("text|json")
	}
	switch r.Intn(4) {
	case 0:
		resp.RawBody = body
	case 1:
		resp.GzipBody = body
	case 2:
		resp.BrBody = body
	case 3:
		resp.GzipBody, resp.BrBody = body, body[:size/2]
	}
	return resp
}

// The persistence format (C09): round trip of generated entries, every truncation is an error,
// bit flips and random bytes never panic and never allocate much more than the input.
func TestBoundedFormat(t *testing.T) {
	seed, _ := strconv.Atoi(os.Getenv("VERIF_SEED"))
	r := rand.New(rand.NewSource(int64(seed) + 7))
	n := 0
	for _, size := range []int{0, 1, 2, 3, 4, 5, 15, 16, 17, 255, 256, 1000, 70000} {
		for rep := 0; rep < 6; rep++ {
			hc := NewHTTPCache()
			hc.status = []Status{StatusHit, StatusHitForPass, StatusHit}[rep%3]
			hc.createdAt = []int64{0, 1, time.Now().Unix(), -1, 1 << 40}[r.Intn(5)]
			hc.expiredAt = []int64{1, time.Now().Unix() + 60, 1<<62 + 5, -7}[r.Intn(4)]
			if hc.status == StatusHit {
				hc.response = genResp(r, size)
			}
			data, err := hc.Bytes()
			if err != nil {
				t.Fatalf("Bytes: %v", err)
			}
			back := NewHTTPCache()
			if err := back.FromBytes(data); err != nil {
				t.Fatalf("FromBytes of a record just written (size %d): %v", size, err)
			}
			if back.status != hc.status || back.createdAt != hc.createdAt || back.expiredAt != hc.expiredAt {
				t.Fatalf("entry fields differ: %v/%d/%d vs %v/%d/%d", back.status, back.createdAt, back.expiredAt, hc.status, hc.createdAt, hc.expiredAt)
			}
			if hc.response != nil {
				a, b := hc.response, back.response
				if a.CompressSrv != b.CompressSrv || a.CompressMinLength != b.CompressMinLength || a.StatusCode != b.StatusCode ||
					!reflect.DeepEqual(a.Header, b.Header) || !bytes.Equal(a.RawBody, b.RawBody) || !bytes.Equal(a.GzipBody, b.GzipBody) || !bytes.Equal(a.BrBody, b.BrBody) ||
					(a.CompressContentTypeFilter == nil) != (b.CompressContentTypeFilter == nil) {
					t.Fatalf("response differs after the round trip (body size %d)", size)
				}
			}
			step := 1
			if len(data) > 600 {
				step = len(data) / 300
			}
			for cut := 0; cut < len(data); cut += step {
				if err := NewHTTPCache().FromBytes(data[:cut]); err == nil {
					t.Fatalf("record of %d bytes truncated to %d decodes without error", len(data), cut)
				}
			}
			for k := 0; k < 40 && len(data) > 0; k++ {
				mut := append([]byte{}, data...)
				mut[r.Intn(len(mut))] ^= 1 << uint(r.Intn(8))
				func() {
					defer func() {
						if p := recover(); p != nil {
							t.Fatalf("bit-flipped record panics: %v", p)
						}
					}()
					_ = NewHTTPCache().FromBytes(mut)
				}()
			}
			n++
		}
	}
	for k := 0; k < 300; k++ {
		junk := make([]byte, r.Intn(64))
		r.Read(junk)
		func() {
			defer func() {
				if p := recover(); p != nil {
					t.Fatalf("random bytes %x panic: %v", junk, p)
				}
			}()
			_ = NewHTTPCache().FromBytes(junk)
		}()
	}
	t.Logf("BOUNDED persistence format: %d generated entries (body sizes 0..70000) round-tripped, truncated at up to 300 offsets each, 40 bit flips each; 300 random records", n)
}

// The negotiation decision table (C13/C05) on the real code: which encoding goes out for which stored
// variants, sizes around the threshold and Accept-Encoding values; the decoded body is the original.
func TestBoundedDecisionTable(t *testing.T) {
	srv := "best"
	n := 0
	raw := bytes.Repeat([]byte("hello pike "), 200) // 2200 bytes, compressible
	for _, min := range []int{0, 100, len(raw) - 1, len(raw), len(raw) + 1, 1 << 20} {
		for _, ct := range []string{"text/html", "image/png", ""} {
			for _, ae := range []string{"", "gzip", "br", "gzip, br", "br, gzip", "deflate", "gzip;q=0", "GZIP"} {
				for _, stored := range []string{"raw", "gzip", "br", "both"} {
					resp := &HTTPResponse{CompressSrv: srv, CompressMinLength: min, StatusCode: 200, Header: http.Header{}}
					if ct != "" {
						resp.Header.Set("Content-Type", ct)
					}
					tmp := &HTTPResponse{CompressSrv: srv, CompressMinLength: 0, RawBody: raw, Header: http.Header{"Content-Type": {"text/plain"}}}
					_ = tmp.Compress()
					switch stored {
					case "raw":
						resp.RawBody = raw
					case "gzip":
						resp.GzipBody = tmp.GzipBody
					case "br":
						resp.BrBody = tmp.BrBody
					case "both":
						resp.GzipBody, resp.BrBody = tmp.GzipBody, tmp.BrBody
					}
					before := *resp
					enc, body, err := resp.getBodyByAcceptEncoding(ae)
					if err != nil {
						t.Fatalf("min=%d ct=%q ae=%q stored=%s: %v", min, ct, ae, stored, err)
					}
					if !reflect.DeepEqual(before.GzipBody, resp.GzipBody) || !reflect.DeepEqual(before.BrBody, resp.BrBody) || !reflect.DeepEqual(before.RawBody, resp.RawBody) {
						t.Fatalf("min=%d ct=%q ae=%q stored=%s: serving altered the stored variants", min, ct, ae, stored)
					}
					var dec []byte
					switch enc {
					case "":
						dec = body
					case "gzip":
						dec, err = (&HTTPResponse{GzipBody: body}).GetRawBody()
					case "br":
						dec, err = (&HTTPResponse{BrBody: body}).GetRawBody()
					default:
						t.Fatalf("unknown encoding %q", enc)
					}
					if err != nil || !bytes.Equal(dec, raw) {
						t.Fatalf("min=%d ct=%q ae=%q stored=%s: encoding %q does not decode to the original (err=%v)", min, ct, ae, stored, enc, err)
					}
					if stored == "raw" {
						// the size rule: a body at or below the minimum length is never compressed; above it, with a
						// compressible type and an accepting client, it is
						if len(raw) <= min && enc != "" {
							t.Fatalf("min=%d ct=%q ae=%q: body of %d bytes (not above the minimum) was compressed as %q", min, ct, ae, len(raw), enc)
						}
						if len(raw) > min && ct == "text/html" && (containsToken(ae, "gzip") || containsToken(ae, "br")) && enc == "" {
							t.Fatalf("min=%d ct=%q ae=%q: body of %d bytes above the minimum was not compressed", min, ct, ae, len(raw))
						}
					}
					if enc != "" && !containsToken(ae, enc) {
						t.Fatalf("min=%d ct=%q ae=%q stored=%s: encoding %q not accepted by the client", min, ct, ae, stored, enc)
					}
					n++
				}
			}
		}
	}
	t.Logf("BOUNDED negotiation: %d combinations (6 thresholds x 3 content types x 8 Accept-Encoding values x 4 stored variant sets): accepted encoding, original body, stored variants untouched", n)
}

func containsToken(ae, enc string) bool { return bytes.Contains([]byte(ae), []byte(enc)) }
