package compress

import (
	"bytes"
	"compress/gzip"
	"io/ioutil"
	"math/rand"
	"os"
	"strconv"
	"testing"

	"github.com/andybalholm/brotli"
	"github.com/golang/snappy"
	"github.com/klauspost/compress/zstd"
	"github.com/pierrec/lz4"
)

func boundedInputs() [][]byte {
	seed, _ := strconv.Atoi(os.Getenv("VERIF_SEED"))
	r := rand.New(rand.NewSource(int64(seed) + 1))
	var ins [][]byte
	ins = append(ins, []byte{}, []byte{0}, []byte("a"), bytes.Repeat([]byte("a"), 1000), bytes.Repeat([]byte{0}, 70000), bytes.Repeat([]byte("abcdefgh"), 4096))
	for _, n := range []int{1, 2, 15, 16, 17, 255, 256, 1023, 1024, 1025, 4096, 65535, 65536, 65537, 200000} {
		b := make([]byte, n)
		r.Read(b)
		ins = append(ins, b)
		for i := range b { // structured: low entropy
			b2 := byte(i % 7)
			if i%97 == 0 {
				b2 = byte(r.Intn(256))
			}
			b[i] = b2
		}
		ins = append(ins, append([]byte{}, b...))
	}
	return ins
}

// Bounded validation of the assumed codec axioms (libspec/40_codecs.spec): for every level -3..13
// pike's encoders produce a stream that the STANDARD decoder and pike's own decoder restore exactly,
// and that is non-empty; for the decode-only formats every stream produced by the reference encoder
// decodes to the input through pike's decoder, whatever the ratio.
func TestBoundedCodecs(t *testing.T) {
	ins := boundedInputs()
	n := 0
	for _, in := range ins {
		for level := -3; level <= 13; level++ {
			out, err := doGzip(in, level)
			if err != nil || len(out) == 0 {
				t.Fatalf("gzip level %d len %d: err=%v len(out)=%d", level, len(in), err, len(out))
			}
			zr, err := gzip.NewReader(bytes.NewReader(out))
			if err != nil {
				t.Fatalf("gzip level %d: standard reader: %v", level, err)
			}
			std, err := ioutil.ReadAll(zr)
			if err != nil || !bytes.Equal(std, in) {
				t.Fatalf("gzip level %d len %d: standard decoder differs (err=%v)", level, len(in), err)
			}
			own, err := doGunzip(out)
			if err != nil || !bytes.Equal(own, in) {
				t.Fatalf("gzip level %d len %d: own decoder differs (err=%v)", level, len(in), err)
			}
			bout, err := doBrotli(in, level)
			if err != nil || len(bout) == 0 {
				t.Fatalf("brotli level %d len %d: err=%v len(out)=%d", level, len(in), err, len(bout))
			}
			bstd, err := ioutil.ReadAll(brotli.NewReader(bytes.NewReader(bout)))
			if err != nil || !bytes.Equal(bstd, in) {
				t.Fatalf("brotli level %d len %d: standard decoder differs (err=%v)", level, len(in), err)
			}
			bown, err := doBrotliDecode(bout)
			if err != nil || !bytes.Equal(bown, in) {
				t.Fatalf("brotli level %d len %d: own decoder differs (err=%v)", level, len(in), err)
			}
			n += 2
		}
		// decode-only formats
		if len(in) > 0 {
			dst := make([]byte, lz4.CompressBlockBound(len(in)))
			k, err := lz4.CompressBlock(in, dst, nil)
			if err == nil && k > 0 {
				got, err := doLZ4Decode(dst[:k])
				if err != nil || !bytes.Equal(got, in) {
					t.Fatalf("lz4 len %d (block %d, ratio %d): err=%v", len(in), k, len(in)/k, err)
				}
				if len(in) > 255*k {
					t.Fatalf("lz4 ratio axiom refuted: %d -> %d", len(in), k)
				}
				n++
			}
		}
		sn := snappy.Encode(nil, in)
		if got, err := doSnappyDecode(sn); err != nil || !bytes.Equal(got, in) {
			t.Fatalf("snappy len %d: err=%v", len(in), err)
		}
		enc, _ := zstd.NewWriter(nil)
		zs := enc.EncodeAll(in, nil)
		if got, err := doZSTDDecode(zs); err != nil || !bytes.Equal(got, in) {
			t.Fatalf("zstd len %d: err=%v", len(in), err)
		}
		n += 2
	}
	t.Logf("BOUNDED codecs: %d round trips; %d inputs (empty, 1 byte, repetitive up to 70000, random and structured up to 200000 bytes), levels -3..13, seed VERIF_SEED", n, len(ins))
}
