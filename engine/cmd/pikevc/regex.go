package main

// Go regular expressions (as compiled by the package initialisers of pike) to SMT-LIB RegLan,
// for the string-theory lemmas.

import (
	"fmt"
	"go/constant"
	"regexp/syntax"
	"strings"
	"unicode"

	"golang.org/x/tools/go/ssa"
)

// regexLiterals: package-level regexp variables initialised with regexp.MustCompile("literal").
func (P *Program) regexLiterals() map[string]string {
	out := map[string]string{}
	for _, sp := range P.spkgs {
		init := sp.Func("init")
		if init == nil {
			continue
		}
		for _, b := range init.Blocks {
			for _, in := range b.Instrs {
				st, ok := in.(*ssa.Store)
				if !ok {
					continue
				}
				gl, ok := st.Addr.(*ssa.Global)
				if !ok {
					continue
				}
				call, ok := st.Val.(*ssa.Call)
				if !ok {
					continue
				}
				sc := call.Common().StaticCallee()
				if sc == nil || sc.Pkg == nil || sc.Pkg.Pkg.Path() != "regexp" || (sc.Name() != "MustCompile" && sc.Name() != "Compile") {
					continue
				}
				if c, ok := call.Common().Args[0].(*ssa.Const); ok && c.Value != nil && c.Value.Kind() == constant.String {
					out[gl.Pkg.Pkg.Path()+"."+gl.Name()] = constant.StringVal(c.Value)
				}
			}
		}
	}
	return out
}

func smtChar(r rune) string {
	if r == '"' {
		return `(str.to_re """")`
	}
	if r < 32 || r > 126 || r == '\\' {
		return fmt.Sprintf(`(str.to_re "\u{%x}")`, r)
	}
	return fmt.Sprintf(`(str.to_re "%c")`, r)
}

func foldChar(r rune) string {
	lo, up := unicode.ToLower(r), unicode.ToUpper(r)
	if lo == up || r > 127 {
		return smtChar(r)
	}
	return "(re.union " + smtChar(lo) + " " + smtChar(up) + ")"
}

func reConcat(xs []string) string {
	if len(xs) == 0 {
		return `(str.to_re "")`
	}
	if len(xs) == 1 {
		return xs[0]
	}
	return "(re.++ " + strings.Join(xs, " ") + ")"
}

func regexToSMT(re *syntax.Regexp) (string, error) {
	switch re.Op {
	case syntax.OpLiteral:
		var xs []string
		for _, r := range re.Rune {
			if re.Flags&syntax.FoldCase != 0 {
				xs = append(xs, foldChar(r))
			} else {
				xs = append(xs, smtChar(r))
			}
		}
		return reConcat(xs), nil
	case syntax.OpCharClass:
		var xs []string
		for i := 0; i+1 < len(re.Rune); i += 2 {
			lo, hi := re.Rune[i], re.Rune[i+1]
			if hi > 255 {
				hi = 255
			}
			if lo > hi {
				continue
			}
			if lo == hi {
				xs = append(xs, smtChar(lo))
			} else {
				xs = append(xs, fmt.Sprintf("(re.range %s %s)", strings.TrimSuffix(strings.TrimPrefix(smtChar(lo), "(str.to_re "), ")"), strings.TrimSuffix(strings.TrimPrefix(smtChar(hi), "(str.to_re "), ")")))
			}
		}
		if len(xs) == 0 {
			return "re.none", nil
		}
		if len(xs) == 1 {
			return xs[0], nil
		}
		return "(re.union " + strings.Join(xs, " ") + ")", nil
	case syntax.OpAnyChar, syntax.OpAnyCharNotNL:
		return "re.allchar", nil
	case syntax.OpEmptyMatch:
		return `(str.to_re "")`, nil
	case syntax.OpCapture:
		return regexToSMT(re.Sub[0])
	case syntax.OpStar, syntax.OpPlus, syntax.OpQuest:
		s, err := regexToSMT(re.Sub[0])
		if err != nil {
			return "", err
		}
		op := map[syntax.Op]string{syntax.OpStar: "re.*", syntax.OpPlus: "re.+", syntax.OpQuest: "re.opt"}[re.Op]
		return "(" + op + " " + s + ")", nil
	case syntax.OpConcat, syntax.OpAlternate:
		var xs []string
		for _, sub := range re.Sub {
			s, err := regexToSMT(sub)
			if err != nil {
				return "", err
			}
			xs = append(xs, s)
		}
		if re.Op == syntax.OpConcat {
			return reConcat(xs), nil
		}
		if len(xs) == 1 {
			return xs[0], nil
		}
		return "(re.union " + strings.Join(xs, " ") + ")", nil
	}
	return "", fmt.Errorf("regular expression operator %s is not supported by the translator", re.Op)
}

// goRegexSearchSMT: the language of strings in which the (unanchored) Go regexp matches somewhere.
func goRegexSearchSMT(lit string) (string, error) {
	re, err := syntax.Parse(lit, syntax.Perl)
	if err != nil {
		return "", err
	}
	body, err := regexToSMT(re)
	if err != nil {
		return "", err
	}
	return "(re.++ re.all " + body + " re.all)", nil
}

func ciLiteralSearchSMT(lit string) string {
	var xs []string
	for _, r := range lit {
		xs = append(xs, foldChar(r))
	}
	return "(re.++ re.all " + reConcat(xs) + " re.all)"
}
