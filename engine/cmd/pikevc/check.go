package main

// Property checks: props/<id>.json selects functions and obligations; results go to
// evidence/<id>.json; violations produce replay files and a VIOLATION line.

import (
	"encoding/json"
	"fmt"
	"os"
	"path/filepath"
	"regexp"
	"sort"
	"strconv"
	"strings"
	"sync"
	"time"
)

type PropFile struct {
	ID          string   `json:"id"`
	Functions   []string `json:"functions"`
	Obligations []string `json:"obligations"` // glob patterns over obligation names
	Lemmas      []string `json:"lemmas,omitempty"`
	Pinned      []string `json:"pinned,omitempty"`
	Explanation string   `json:"explanation"`
	Trusted     []string `json:"trusted_base"`
	Assumptions []string `json:"assumptions"`
	NotDecided  []string `json:"not_decided,omitempty"`
	Bounded     []string `json:"bounded,omitempty"` // names of bounded stand-ins (thorough)
	NoDeps      bool     `json:"no_deps,omitempty"` // do not add the verified callees of the listed functions
}

type Finding struct {
	Property   string `json:"property"`
	Obligation string `json:"obligation"`
	Region     string `json:"region,omitempty"`
	What       string `json:"what"`
}

type FindingsFile struct {
	Findings []Finding `json:"findings"`
	Fixed    []string  `json:"fixed"`
}

var ordRe = regexp.MustCompile(`#[0-9]+$`)

// baseName strips the per-exit / per-site ordinal of an obligation name.
func baseName(s string) string { return ordRe.ReplaceAllString(s, "") }

func globMatch(pat, s string) bool {
	re := "^" + strings.ReplaceAll(regexp.QuoteMeta(pat), `\*`, ".*") + "$"
	ok, _ := regexp.MatchString(re, s)
	return ok
}

func matchAny(pats []string, s string) bool {
	for _, p := range pats {
		if globMatch(p, s) {
			return true
		}
	}
	return false
}

func loadProp(id string) (*PropFile, error) {
	data, err := os.ReadFile(filepath.Join(verifDir, "props", id+".json"))
	if err != nil {
		return nil, err
	}
	var pf PropFile
	if err := json.Unmarshal(data, &pf); err != nil {
		return nil, fmt.Errorf("props/%s.json: %v", id, err)
	}
	return &pf, nil
}

func loadFindings() *FindingsFile {
	var ff FindingsFile
	data, err := os.ReadFile(filepath.Join(verifDir, "known_findings.json"))
	if err == nil {
		_ = json.Unmarshal(data, &ff)
	}
	return &ff
}

type checkedObl struct {
	Name   string         `json:"name"`
	Kind   string         `json:"kind"`
	Result string         `json:"result"`
	Solver string         `json:"solver"`
	Secs   float64        `json:"time_s"`
	Clause string         `json:"clause,omitempty"`
	Pos    string         `json:"pos,omitempty"`
	All    []solverAnswer `json:"all_solvers,omitempty"`
	res    *oblResult     `json:"-"`
	fn     string         `json:"-"`
	g      *gen           `json:"-"`
}

type funcRun struct {
	dep      bool // not named by the property: a callee whose verified contract was relied on
	poisoned int
	key      string
	g        *gen
	err      error
	res      []oblResult
	secs     float64
}

func cmdCheck(args []string) int {
	if len(args) < 1 {
		fmt.Fprintln(os.Stderr, "usage: pikevc check <id> [quick|thorough]")
		return 2
	}
	id := args[0]
	tier := "quick"
	if len(args) > 1 {
		tier = args[1]
	}
	t0 := time.Now()
	seed, _ := strconv.Atoi(os.Getenv("VERIF_SEED"))
	pf, err := loadProp(id)
	if err != nil {
		fmt.Fprintln(os.Stderr, "error:", err)
		return 2
	}
	P := mustLoad()
	timeout := 10
	cross := false
	if tier == "thorough" {
		timeout = 60
		cross = true
	}
	findings := loadFindings()
	rep := runProperty(P, pf, findings, timeout, cross, tier)
	rep.Tier = tier
	rep.Seed = seed
	rep.WallS = time.Since(t0).Seconds()
	rep.LoadS = P.loadSecs
	writeEvidence(pf, rep)
	for _, l := range rep.Lines {
		fmt.Println(l)
	}
	if rep.Violations > 0 || rep.Broken {
		return 1
	}
	fmt.Printf("PASS property=%s tier=%s obligations=%d discharged=%d functions=%d+%d wall=%.1fs\n", id, tier, rep.Obligations, rep.Discharged, len(pf.Functions), len(rep.DepFunctions), rep.WallS)
	return 0
}

type report struct {
	Tier         string
	Seed         int
	WallS        float64
	LoadS        float64
	Obligations  int
	Discharged   int
	Violations   int
	Broken       bool
	Lines        []string
	Checked      []checkedObl
	Vacuity      map[string]string
	Uses         map[string]bool
	SolverSecs   float64
	BySolver     map[string]int
	Known        []string
	EngineErrs   []string
	Functions    []string
	DepFunctions []string
	Extra        map[string]interface{}
}

func runProperty(P *Program, pf *PropFile, findings *FindingsFile, timeout int, cross bool, tier string) *report {
	rep := &report{Vacuity: map[string]string{}, Uses: map[string]bool{}, BySolver: map[string]int{}, Extra: map[string]interface{}{}}
	dir, _ := os.MkdirTemp("", "pikevc-"+pf.ID)
	defer os.RemoveAll(dir)

	// known findings of this property: obligation -> finding
	known := map[string]Finding{}
	for _, f := range findings.Findings {
		if f.Property == pf.ID {
			known[f.Obligation] = f
		}
	}

	// The functions named by the property, then (wave by wave) every pike function whose verified
	// contract one of them was checked against: verification is modular, so a change inside a callee
	// shows up only as a failed obligation of that callee, which therefore belongs to the property too.
	var runs []*funcRun
	var mu sync.Mutex
	done := map[string]bool{}
	sem := make(chan struct{}, 6)
	retrySem := make(chan struct{}, 2)
	runWave := func(keys []string, dep bool) []*funcRun {
		wave := make([]*funcRun, len(keys))
		var wg sync.WaitGroup
		for i, key := range keys {
			wg.Add(1)
			go func(i int, key string) {
				defer wg.Done()
				sem <- struct{}{}
				defer func() { <-sem }()
				t0 := time.Now()
				fr := &funcRun{key: key, dep: dep}
				wave[i] = fr
				g, err := P.genVCWith(key, known)
				fr.g, fr.err = g, err
				if err != nil || g == nil {
					return
				}
				real := func(o *obligation) bool { return o.Kind != "smoke" && o.Kind != "canary" && o.Kind != "finding" }
				// Every obligation of every function involved is discharged and reported: the globs of the
				// property file only decide which clauses are pinned (must keep being generated). A function
				// that is relied on with one broken clause is not a sound basis for the clauses that still prove.
				selected := func(o *obligation) bool {
					if dep {
						return real(o)
					}
					return true
				}
				// round 1: every obligation of the function (a failed assertion is assumed afterwards, so an
				// unrelated failure could make this property's obligations pass vacuously)
				all := solveAll(g, dir, timeout, false, func(o *obligation) bool { return selected(o) || real(o) }, 6)
				// A time-out under load is not a verdict: obligations that ran out of time are tried once
				// more, one at a time, with four times the budget (bounded: at most eight per function).
				var slow []int
				for i, r := range all {
					if real(r.Obl) && r.Answer.Result == "timeout" {
						slow = append(slow, i)
					}
				}
				if len(slow) > 0 && len(slow) <= 8 {
					retrySem <- struct{}{}
					for _, i := range slow {
						want := all[i].Obl
						rr := solveAll(g, dir, timeout*4, false, func(o *obligation) bool { return o == want }, 1)
						if len(rr) == 1 && rr[0].Answer.Result == "unsat" {
							rr[0].Answer.Retried = true
							all[i] = rr[0]
						}
					}
					<-retrySem
				}
				failing := map[int]bool{}
				for _, r := range all {
					if real(r.Obl) && r.Answer.Result != "unsat" {
						failing[r.Obl.idx] = true
					}
				}
				if len(failing) == 0 {
					if cross && !dep {
						// the agreement matrix is computed for the functions the property names
						fr.res = solveAll(g, dir, timeout, true, selected, 5)
					} else {
						for _, r := range all {
							if selected(r.Obl) {
								fr.res = append(fr.res, r)
							}
						}
					}
				} else {
					// round 2: this property's obligations, with the failed ones asserted but not assumed
					fr.poisoned = len(failing)
					fr.res = solveAllNA(g, dir, timeout, cross && !dep, selected, 5, failing)
				}
				fr.secs = time.Since(t0).Seconds()
			}(i, key)
		}
		wg.Wait()
		return wave
	}
	var first []string
	for _, fk := range pf.Functions {
		k := resolveKey(P, fk)
		first = append(first, k)
		done[k] = true
	}
	wave := runWave(first, false)
	for len(wave) > 0 {
		runs = append(runs, wave...)
		var next []string
		mu.Lock()
		for _, fr := range wave {
			if fr.g == nil {
				continue
			}
			for u := range fr.g.used {
				if !strings.HasPrefix(u, "verified:") {
					continue
				}
				k := strings.TrimPrefix(u, "verified:")
				if !done[k] && P.funcs[k] != nil {
					done[k] = true
					next = append(next, k)
				}
			}
		}
		mu.Unlock()
		sort.Strings(next)
		if pf.NoDeps {
			next = nil
		}
		wave = runWave(next, true)
	}

	generated := map[string]bool{}
	smokeReach := map[string]int{}
	smokeDead := map[string]int{}
	replayDir := filepath.Join(verifDir, "out", "replay", pf.ID)
	if o := os.Getenv("PIKEVC_OUT"); o != "" {
		replayDir = filepath.Join(o, "replay", pf.ID)
	}
	_ = os.RemoveAll(replayDir)
	violation := func(obl, why string, payload map[string]interface{}, hasInput bool) {
		_ = os.MkdirAll(replayDir, 0o755)
		path := filepath.Join(replayDir, sanitize(obl)+".json")
		payload["property"] = pf.ID
		payload["obligation"] = obl
		payload["why"] = why
		data, _ := json.MarshalIndent(payload, "", " ")
		_ = os.WriteFile(path, data, 0o644)
		line := fmt.Sprintf("VIOLATION property=%s replay=%s obligation=%s %s", pf.ID, path, obl, why)
		if !hasInput {
			line += " no-failing-input-found"
		}
		rep.Lines = append(rep.Lines, line)
		rep.Violations++
	}

	for _, fr := range runs {
		rep.Functions = append(rep.Functions, fr.key)
		if fr.dep {
			rep.DepFunctions = append(rep.DepFunctions, fr.key)
		}
		if fr.err != nil {
			rep.EngineErrs = append(rep.EngineErrs, fr.err.Error())
			violation(shortKey(fr.key)+"/contract-binding", "function under contract cannot be analysed: "+fr.err.Error(), map[string]interface{}{"error": fr.err.Error()}, false)
			continue
		}
		g := fr.g
		if len(g.errs) > 0 {
			rep.EngineErrs = append(rep.EngineErrs, g.errs...)
			violation(shortKey(fr.key)+"/outside-subset", "the current body of the function is outside the verified subset or no longer binds to its contract: "+g.errs[0],
				map[string]interface{}{"errors": g.errs}, false)
			continue
		}
		for k := range g.used {
			rep.Uses[k] = true
		}
		// vacuity verdicts are only meaningful when every real obligation of the function holds:
		// after a failed assertion the rest of the path is analysed under a false assumption
		fnFailed := false
		for i := range fr.res {
			k := fr.res[i].Obl.Kind
			if k != "smoke" && k != "canary" && k != "finding" && fr.res[i].Answer.Result != "unsat" {
				if _, isKnown := known[fr.res[i].Obl.Name]; !isKnown {
					fnFailed = true
				}
			}
		}
		for i := range fr.res {
			r := &fr.res[i]
			o := r.Obl
			rep.SolverSecs += r.Answer.Secs
			if fnFailed && (o.Kind == "smoke" || o.Kind == "canary") {
				rep.Vacuity[o.Name] = "skipped (an obligation of this function failed)"
				continue
			}
			switch o.Kind {
			case "smoke":
				switch r.Answer.Result {
				case "sat":
					rep.Vacuity[o.Name] = "reachable"
					smokeReach[fr.key]++
				case "unsat":
					rep.Vacuity[o.Name] = "unreachable exit"
					smokeDead[fr.key]++
				default:
					rep.Vacuity[o.Name] = "inconclusive(" + r.Answer.Result + ")"
					smokeReach[fr.key]++
				}
				continue
			case "canary":
				if r.Answer.Result == "unsat" {
					rep.Vacuity[o.Name] = "NEGATION-PROVABLE"
					rep.Broken = true
					rep.Lines = append(rep.Lines, fmt.Sprintf("CHECK-ERROR property=%s vacuity: the negation of %s is provable too", pf.ID, o.Name))
				} else {
					rep.Vacuity[o.Name] = "refuted-as-expected(" + r.Answer.Result + ")"
				}
				continue
			case "finding":
				base := strings.TrimSuffix(o.Name, "@finding")
				f := known[base]
				if r.Answer.Result == "unsat" {
					rep.Lines = append(rep.Lines, fmt.Sprintf("NOTE property=%s listed finding no longer reproduces: %s", pf.ID, base))
				} else {
					rep.Lines = append(rep.Lines, fmt.Sprintf("KNOWN-FINDING: property=%s %s [%s]", pf.ID, f.What, base))
					rep.Known = append(rep.Known, base)
				}
				continue
			}
			generated[baseName(o.Name)] = true
			co := checkedObl{Name: o.Name, Kind: o.Kind, Result: r.Answer.Result, Solver: r.Answer.Solver, Secs: r.Answer.Secs, Clause: o.Clause, Pos: o.Pos}
			if cross {
				co.All = r.All
				for _, a := range r.All {
					if a.Result == "sat" && r.Answer.Result == "unsat" || a.Result == "unsat" && r.Answer.Result == "sat" {
						rep.Broken = true
						rep.Lines = append(rep.Lines, fmt.Sprintf("CHECK-ERROR property=%s solvers disagree on %s", pf.ID, o.Name))
					}
				}
			}
			rep.Obligations++
			if f, isKnown := known[o.Name]; isKnown && f.Region == "" {
				// finding identified by obligation name only
				if r.Answer.Result != "unsat" {
					rep.Lines = append(rep.Lines, fmt.Sprintf("KNOWN-FINDING: property=%s %s [%s]", pf.ID, f.What, o.Name))
					rep.Known = append(rep.Known, o.Name)
					rep.Obligations--
					co.Result = "known-finding(" + r.Answer.Result + ")"
					rep.Checked = append(rep.Checked, co)
					continue
				}
				rep.Lines = append(rep.Lines, fmt.Sprintf("NOTE property=%s listed finding no longer reproduces: %s", pf.ID, o.Name))
			}
			if r.Answer.Result == "unsat" {
				rep.Discharged++
				rep.BySolver[r.Answer.Solver]++
			} else {
				payload := map[string]interface{}{
					"function": fr.key, "kind": o.Kind, "clause": o.Clause, "position": o.Pos,
					"solver_result": r.Answer.Result, "solver": r.Answer.Solver, "solver_output": truncate(r.Answer.Output, 6000),
				}
				hasInput := false
				why := "obligation not discharged (" + r.Answer.Result + ")"
				if r.Answer.Result == "sat" {
					why = "obligation refuted (counterexample)"
					model := parseModel(r.Answer.Output)
					payload["model_inputs"] = model
					rp := replayModel(P, g, o, model)
					if rp != nil {
						payload["replay"] = rp
						if rp.Confirmed {
							hasInput = true
						}
					}
				}
				violation(o.Name, why, payload, hasInput)
			}
			rep.Checked = append(rep.Checked, co)
		}
	}
	// vacuity: a function none of whose exits is reachable under its assumptions has a contradictory contract
	for k, dead := range smokeDead {
		if dead > 0 && smokeReach[k] == 0 {
			rep.Broken = true
			rep.Lines = append(rep.Lines, fmt.Sprintf("CHECK-ERROR property=%s vacuity: no exit of %s is reachable under the assumptions (contradictory contract?)", pf.ID, shortKey(k)))
		}
	}
	// pinned obligations must still be generated
	failedFn := map[string]bool{}
	for _, fr := range runs {
		if fr.err != nil || (fr.g != nil && len(fr.g.errs) > 0) {
			failedFn[shortKey(fr.key)] = true
		}
	}
	for _, p := range pf.Pinned {
		if i := strings.Index(p, "/"); i > 0 && failedFn[p[:i]] {
			continue // already reported as contract-binding / outside-subset
		}
		if libraryPre(p) {
			continue // whether a library helper is still called is not part of any contract
		}
		if !generated[baseName(p)] {
			violation(p, "pinned obligation is no longer generated (function, clause or loop disappeared)", map[string]interface{}{}, false)
		}
	}
	// lemmas
	for _, ln := range pf.Lemmas {
		region := ""
		if f, ok := known["lemma/"+ln]; ok {
			region = f.Region
			// re-confirm that the finding still reproduces: the unrestricted lemma must not be provable
			if ca, _, cerr := proveLemma(P, ln, dir, 5, false); cerr == nil && ca.Result == "unsat" {
				rep.Lines = append(rep.Lines, fmt.Sprintf("NOTE property=%s listed finding no longer reproduces: lemma/%s", pf.ID, ln))
			} else {
				rep.Lines = append(rep.Lines, fmt.Sprintf("KNOWN-FINDING: property=%s %s [lemma/%s]", pf.ID, f.What, ln))
				rep.Known = append(rep.Known, "lemma/"+ln)
			}
		}
		a, q, err := proveLemmaRegion(P, ln, dir, timeout, cross, region)
		rep.Obligations++
		co := checkedObl{Name: "lemma/" + ln, Kind: "lemma"}
		if err != nil {
			rep.EngineErrs = append(rep.EngineErrs, err.Error())
			violation("lemma/"+ln, err.Error(), map[string]interface{}{}, false)
			continue
		}
		co.Result, co.Solver, co.Secs = a.Result, a.Solver, a.Secs
		rep.SolverSecs += a.Secs
		if a.Result == "unsat" {
			rep.Discharged++
			rep.BySolver[a.Solver]++
		} else {
			violation("lemma/"+ln, "lemma not proved ("+a.Result+")", map[string]interface{}{"solver_output": truncate(a.Output, 4000), "query_bytes": len(q)}, false)
		}
		rep.Checked = append(rep.Checked, co)
	}
	if rep.Obligations == 0 {
		rep.Broken = true
		rep.Lines = append(rep.Lines, fmt.Sprintf("CHECK-ERROR property=%s no obligations generated", pf.ID))
	}
	sort.Slice(rep.Checked, func(i, j int) bool { return rep.Checked[i].Name < rep.Checked[j].Name })
	return rep
}

func writeEvidence(pf *PropFile, rep *report) {
	var uses []string
	for k := range rep.Uses {
		uses = append(uses, k)
	}
	sort.Strings(uses)
	var assumed, verified, pure, inlined, other []string
	for _, u := range uses {
		switch {
		case strings.HasPrefix(u, "assumed:"):
			assumed = append(assumed, strings.TrimPrefix(u, "assumed:"))
		case strings.HasPrefix(u, "verified:"):
			verified = append(verified, strings.TrimPrefix(u, "verified:"))
		case strings.HasPrefix(u, "pure:"):
			pure = append(pure, strings.TrimPrefix(u, "pure:"))
		case strings.HasPrefix(u, "inlined:"):
			inlined = append(inlined, strings.TrimPrefix(u, "inlined:"))
		default:
			other = append(other, u)
		}
	}
	// callee contracts that no claimed property verifies yet are assumptions, not proofs
	covered := map[string]bool{}
	if files, err := filepath.Glob(filepath.Join(verifDir, "props", "C*.json")); err == nil {
		for _, f := range files {
			if data, err := os.ReadFile(f); err == nil {
				var p PropFile
				if json.Unmarshal(data, &p) == nil {
					for _, fn := range p.Functions {
						covered[strings.TrimPrefix(fn, "github.com/vicanso/pike/")] = true
					}
				}
			}
		}
	}
	var unverified []string
	var verifiedOK []string
	for _, v := range verified {
		if covered[shortKey(v)] {
			verifiedOK = append(verifiedOK, v)
		} else {
			unverified = append(unverified, v)
		}
	}
	verified = verifiedOK
	samples := []interface{}{}
	for i, c := range rep.Checked {
		if i >= 12 {
			break
		}
		samples = append(samples, map[string]interface{}{"obligation": c.Name, "clause": c.Clause, "result": c.Result, "solver": c.Solver, "time_s": c.Secs})
	}
	assumptions := append([]string{}, pf.Assumptions...)
	for _, a := range assumed {
		assumptions = append(assumptions, "assumed contract (not verified): "+a)
	}
	for _, a := range unverified {
		assumptions = append(assumptions, "callee contract used but not verified by any claimed check (assumed): "+a)
	}
	for _, a := range pure {
		assumptions = append(assumptions, "assumed effect-free on pike's heap: "+a)
	}
	for _, a := range other {
		assumptions = append(assumptions, a)
	}
	assumptions = append(assumptions,
		"int is 64-bit (GOARCH=amd64); integer arithmetic is mathematical with explicit wrap-around at every + - * and conversion",
		"partial correctness: termination is not proved",
		"go/ssa (x/tools v0.29.0) and go/types translate the source faithfully; the VC generator itself (engine/) is trusted")
	trusted := append([]string{"z3 4.8.12 / z3 5.1.0 / cvc5 1.0 (an 'unsat' from any one of them discharges an obligation)", "pikevc VC generator (engine/cmd/pikevc)", "golang.org/x/tools/go/ssa v0.29.0"}, pf.Trusted...)
	cov := map[string]interface{}{
		"obligations":              rep.Obligations,
		"discharged":               rep.Discharged,
		"checker_cmd":              fmt.Sprintf("bin/check %s %s", pf.ID, rep.Tier),
		"trusted_base":             trusted,
		"samples":                  samples,
		"functions_under_contract": rep.Functions,
		"of_which_callees_added_by_dependency_closure": rep.DepFunctions,
		"callee_contracts_verified_elsewhere":          verified,
		"callees_inlined":                              inlined,
		"obligation_results":                           rep.Checked,
		"discharged_by_solver":                         rep.BySolver,
		"solver_time_s":                                rep.SolverSecs,
		"load_time_s":                                  rep.LoadS,
		"vacuity":                                      rep.Vacuity,
		"known_findings_reported":                      rep.Known,
		"engine_errors":                                rep.EngineErrs,
		"explanation":                                  pf.Explanation,
		"not_decided":                                  pf.NotDecided,
		"exhaustive":                                   false,
	}
	for k, v := range rep.Extra {
		cov[k] = v
	}
	ev := map[string]interface{}{
		"property_id": pf.ID,
		"tier":        rep.Tier,
		"seed":        rep.Seed,
		"level":       "proof",
		"coverage":    cov,
		"assumptions": assumptions,
		"wall_s":      rep.WallS,
		"violations":  rep.Violations,
	}
	evDir := filepath.Join(verifDir, "evidence")
	if o := os.Getenv("PIKEVC_OUT"); o != "" {
		evDir = filepath.Join(o, "evidence")
	}
	_ = os.MkdirAll(evDir, 0o755)
	data, _ := json.MarshalIndent(ev, "", " ")
	_ = os.WriteFile(filepath.Join(evDir, pf.ID+".json"), data, 0o644)
}

// cmdPin regenerates the pinned obligation list of a property from the current tree.
func cmdPin(args []string) int {
	P := mustLoad()
	// type and provenance of every local name of every function under contract (see aliasRenamed)
	sigs := map[string]map[string]localSig{}
	for key, fs := range P.spec.Funcs {
		fn := P.funcs[key]
		if fn == nil || fs.Assumed || len(fn.Blocks) == 0 {
			continue
		}
		sigs[key] = localSigs(fn)
	}
	if data, err := json.MarshalIndent(sigs, "", " "); err == nil {
		_ = os.WriteFile(filepath.Join(verifDir, "props", "_locals.json"), append(data, '\n'), 0o644)
	}
	for _, id := range args {
		pf, err := loadProp(id)
		if err != nil {
			fmt.Fprintln(os.Stderr, err)
			return 2
		}
		var names []string
		for _, fk := range pf.Functions {
			g, err := P.genVCWith(resolveKey(P, fk), nil)
			if err != nil {
				fmt.Fprintln(os.Stderr, "pin:", err)
				return 2
			}
			for _, e := range g.errs {
				fmt.Fprintln(os.Stderr, "pin: engine error:", e)
			}
			for _, o := range g.obls {
				if o.Safety || o.Kind == "smoke" || o.Kind == "canary" || o.Kind == "finding" {
					continue
				}
				if matchAny(pf.Obligations, o.Name) && !libraryPre(o.Name) {
					bn := baseName(o.Name)
					dup := false
					for _, x := range names {
						if x == bn {
							dup = true
						}
					}
					if !dup {
						names = append(names, bn)
					}
				}
			}
		}
		sort.Strings(names)
		pf.Pinned = names
		data, _ := json.MarshalIndent(pf, "", " ")
		_ = os.WriteFile(filepath.Join(verifDir, "props", id+".json"), append(data, '\n'), 0o644)
		fmt.Printf("%s: pinned %d contract-clause obligations\n", id, len(names))
	}
	return 0
}

var pikePreRe = regexp.MustCompile(`/pre:(cache|server|location|compress|upstream|util|store|config)\.`)

// libraryPre: a precondition obligation of a library callee. Such obligations are checked when
// generated but never pinned: replacing one library helper by another is not a property change.
func libraryPre(name string) bool {
	for _, k := range []string{"/lock-leak", "/unlockheld", "/lockfree", "/lockorder", "/hook:", "/lockinv:"} {
		if strings.Contains(name, k) {
			return true // generated from the code's own lock operations and field writes, not from a contract clause
		}
	}
	if strings.Contains(name, "/inv:") || strings.Contains(name, "/rangeinv:") || strings.Contains(name, "/loopframe:") {
		return true // loop invariants are proof devices: if the loop goes and the contract still proves, nothing is lost
	}
	// preconditions of callees (library or pike) are obligations of whatever calls exist; that a
	// particular helper is still called is not a contract clause (inlining a helper is harmless)
	return strings.Contains(name, "/pre:")
}

func cmdSelftest(args []string) int { return 2 }
