package main

// Contract files: //@ lines in /repo/<pkg>/contracts_verif.go (verified) and
// /verif/libspec/*.spec (assumed). Line oriented; a line that does not start with a
// keyword continues the previous clause.

import (
	"fmt"
	"os"
	"path/filepath"
	"regexp"
	"sort"
	"strconv"
	"strings"
)

type Clause struct {
	Label string
	Src   string
	E     Expr
	Where string
}

type ParamDecl struct {
	Name string
	Type *TypeExpr
}

type LoopSpec struct {
	Invs        []Clause
	Decreases   *Clause
	HasModifies bool
	Modifies    []ModLoc
}

type ModLoc struct {
	Src string
	E   Expr   // x.f / $g / $g[k]
	All string // "T::f" whole field map; "heap"
}

// CallSiteSpec replaces the contract of the k-th call of Callee by a (virtual, assumed) contract
// specialised for that call, with arguments given as expressions over the caller's locals.
type CallSiteSpec struct {
	Callee string
	K      int
	Fn     string
	Args   []Expr
	Src    string
}

// PreCall: an assertion over the caller's state (parameters and locals) checked right before the
// k-th call of Callee.
type PreCall struct {
	Callee string
	K      int
	C      Clause
}

type GhostUpdate struct {
	// at call <callee>#k before|after: $g[...] := e
	Target Expr
	Value  Expr
	Src    string
}

type FuncSpec struct {
	Key      string
	PkgPath  string
	PkgName  string
	RecvName string
	RecvType *TypeExpr
	Name     string
	Params   []ParamDecl
	Results  []ParamDecl
	Variadic bool

	Requires     []Clause
	Ensures      []Clause
	EnsuresPanic []Clause
	AtUnlock     []Clause // checked at every Unlock in the function
	EnsuresLocal []Clause // checked at exits with the function's locals in scope; never assumed by callers
	CallSites    []CallSiteSpec
	PreCalls     []PreCall
	Virtual      bool
	Modifies     []ModLoc
	HasModifies  bool
	BoundedAlloc bool // every allocation is of constant size, or made by a callee with the same clause
	NoPanic      bool
	Pure         bool // no effect on modelled state, result unconstrained beyond ensures
	Trusted      bool // contract on pike code that is assumed, not verified
	Assumed      bool // library contract
	Inline       bool // closure executed in place at its call sites
	Loops        map[int]*LoopSpec
	RangeLoops   map[int]*LoopSpec // invariants for sync.Map.Range(closure) calls, by ordinal
	Acquires     bool
	Strings      bool // verify in SMT string theory
	UseAxioms    []string
	File         string
	Line         int
	Imports      map[string]string
}

type SpecFunc struct {
	Name    string
	Params  []ParamDecl
	Result  *TypeExpr // nil for pred (Bool)
	Body    Expr      // nil: uninterpreted
	Src     string
	PkgPath string
	Imports map[string]string
	Reads   bool // body reads the heap: instantiated by macro expansion (always the case here)
}

type LockInv struct {
	Label       string
	Type, Field string // struct type name, lock field
	Var         string
	E           Expr
	Src         string
	PkgPath     string
	Imports     map[string]string
}

// TypeInv: an invariant of every object of a struct type reachable through a non-nil pointer.
// It is assumed wherever such a pointer is obtained and proved at the exits of the
// constructors named in By (the only functions allowed to allocate the type).
type TypeInv struct {
	Type    string
	Var     string
	By      []string
	E       Expr
	Src     string
	PkgPath string
	Imports map[string]string
	Assumed bool
}

type ImmCells struct {
	Loc     string
	PkgPath string
	Imports map[string]string
}

type WriteHook struct {
	Type, Field string
	X, Old, New string
	Asserts     []Clause
	Updates     []GhostUpdate
	PkgPath     string
	Imports     map[string]string
}

type GhostDecl struct {
	Name    string
	Type    *TypeExpr
	PkgPath string
	Imports map[string]string
	Local   bool // thread-local ghost: not havocked by heap-modifying calls
}

type Axiom struct {
	Name    string
	E       Expr
	Src     string
	PkgPath string
	Imports map[string]string
	Lemma   bool
	Strings bool
	File    string
	Global  bool
	Hide    string   // lemma only: glob of spec functions kept opaque in its proof
	Reveal  []string // exceptions to Hide
	Using   []string // lemma only: the axioms and earlier lemmas its proof may use (default: all)
}

type Spec struct {
	Funcs       map[string]*FuncSpec
	GhostFields map[string]*GhostDecl // pkgpath.T.f
	GhostVars   map[string]*GhostDecl // $name
	Guarded     map[string]string     // pkgpath.T.f -> lock field name
	Immutable   map[string]bool       // pkgpath.T.f
	Confined    map[string]bool       // pkgpath.T: fields are written only by the goroutine that owns the object ($owns)
	LockInvs    map[string][]*LockInv // pkgpath.T.lockfield
	Sorts       map[string]bool
	TypeInvs    map[string]*TypeInv // pkgpath.T
	ImmutableCells []ImmCells
	Preds       map[string]*SpecFunc  // by simple name (and pkgname.Name)
	Axioms      []*Axiom
	Hooks       map[string]*WriteHook // pkgpath.T.f
	PurePats    []string              // callee key globs assumed effect-free
	FuncTypes   map[string]*FuncSpec  // contracts for named func types / func-typed fields
	Files       []string
}

func newSpec() *Spec {
	return &Spec{
		Funcs:       map[string]*FuncSpec{},
		GhostFields: map[string]*GhostDecl{},
		GhostVars:   map[string]*GhostDecl{},
		Guarded:     map[string]string{},
		Immutable:   map[string]bool{},
		LockInvs:    map[string][]*LockInv{},
		Sorts:       map[string]bool{},
		TypeInvs:    map[string]*TypeInv{},
		Preds:       map[string]*SpecFunc{},
		Hooks:       map[string]*WriteHook{},
		Confined:    map[string]bool{},
		FuncTypes:   map[string]*FuncSpec{},
	}
}

var topKeywords = map[string]bool{
	"package": true, "import": true, "ghost": true, "guarded_by": true, "immutable": true,
	"lockinv": true, "pred": true, "spec": true, "axiom": true, "lemma": true, "on": true,
	"func": true, "pure": true, "functype": true, "sort": true, "typeinv": true, "confined": true,
}
var fnKeywords = map[string]bool{
	"requires": true, "ensures": true, "ensures_on_panic": true, "modifies": true, "nopanic": true,
	"trusted": true, "assumed": true, "loop": true, "acquires": true, "atunlock": true,
	"assert": true, "update": true, "inline": true, "strings": true, "effectfree": true,
	"ensures_local": true, "boundedalloc": true, "uses": true, "callsite": true, "virtual": true, "precall": true, "rangeloop": true,
}

type specItem struct {
	kw   string
	text string
	line int
}

func stripComment(s string) string {
	inStr := false
	for i := 0; i+1 < len(s); i++ {
		if s[i] == '"' && (i == 0 || s[i-1] != '\\') {
			inStr = !inStr
		}
		if !inStr && s[i] == '/' && s[i+1] == '/' {
			return s[:i]
		}
	}
	return s
}

func firstWord(s string) string {
	s = strings.TrimSpace(s)
	for i, c := range s {
		if !(c == '_' || (c >= 'a' && c <= 'z') || (c >= 'A' && c <= 'Z')) {
			return s[:i]
		}
	}
	return s
}

func readItems(path string, prefix string) ([]specItem, error) {
	data, err := os.ReadFile(path)
	if err != nil {
		return nil, err
	}
	var items []specItem
	for i, ln := range strings.Split(string(data), "\n") {
		t := strings.TrimSpace(ln)
		if prefix != "" {
			if !strings.HasPrefix(t, prefix) {
				continue
			}
			t = strings.TrimPrefix(t, prefix)
		} else if strings.HasPrefix(t, "#") {
			continue
		}
		t = strings.TrimSpace(stripComment(t))
		if t == "" {
			continue
		}
		w := firstWord(t)
		if topKeywords[w] || fnKeywords[w] {
			items = append(items, specItem{w, strings.TrimSpace(t[len(w):]), i + 1})
		} else if len(items) > 0 {
			items[len(items)-1].text += " " + t
		} else {
			return nil, fmt.Errorf("%s:%d: continuation line without a clause", path, i+1)
		}
	}
	return items, nil
}

// lemma [name] hide <glob> except f, g: body -- the spec functions matching the glob are uninterpreted in the
// proof of this lemma (opaque), except the listed ones; what is proved for an arbitrary function holds for the defined one
var hideRe = regexp.MustCompile(`^(?:hide\s+(\S+)(?:\s+except\s+([\w, ]+?))?)?\s*(?:using\s+([\w, -]+?))?\s*:\s*`)
var labelRe = regexp.MustCompile(`^\[([^\]]+)\]\s*:?\s*`)

func parseClause(text, where string) (Clause, error) {
	c := Clause{Where: where}
	if m := labelRe.FindStringSubmatch(text); m != nil {
		c.Label = m[1]
		text = text[len(m[0]):]
	}
	c.Src = text
	e, err := parseExpr(text)
	if err != nil {
		return c, fmt.Errorf("%s: %v", where, err)
	}
	c.E = e
	return c, nil
}

// parseFuncHeader parses "(recv T) name(params) results"
func parseFuncHeader(text string) (*FuncSpec, error) {
	toks, err := lex(text)
	if err != nil {
		return nil, err
	}
	p := &parser{toks: toks, src: text}
	fs := &FuncSpec{Loops: map[int]*LoopSpec{}, RangeLoops: map[int]*LoopSpec{}}
	if p.isOp("(") {
		p.next()
		id := p.next()
		fs.RecvName = id.s
		ty, err := p.typeExpr()
		if err != nil {
			return nil, err
		}
		fs.RecvType = ty
		if err := p.expect(")"); err != nil {
			return nil, err
		}
	}
	nm := p.next()
	if nm.k != tIdent {
		return nil, fmt.Errorf("expected function name in %q", text)
	}
	fs.Name = nm.s
	for p.accept(".") { // qualified closure names a.b
		t := p.next()
		fs.Name += "." + t.s
	}
	plist := func() ([]ParamDecl, bool, error) {
		var out []ParamDecl
		variadic := false
		if err := p.expect("("); err != nil {
			return nil, false, err
		}
		if p.accept(")") {
			return out, false, nil
		}
		for {
			var names []string
			for {
				id := p.next()
				if id.k != tIdent {
					return nil, false, fmt.Errorf("expected parameter name in %q at %d", text, id.pos)
				}
				names = append(names, id.s)
				if !p.accept(",") {
					break
				}
			}
			if p.accept("...") {
				variadic = true
				el, err := p.typeExpr()
				if err != nil {
					return nil, false, err
				}
				for _, n := range names {
					out = append(out, ParamDecl{n, &TypeExpr{Kind: "slice", Elem: el}})
				}
			} else {
				ty, err := p.typeExpr()
				if err != nil {
					return nil, false, err
				}
				for _, n := range names {
					out = append(out, ParamDecl{n, ty})
				}
			}
			if p.accept(")") {
				return out, variadic, nil
			}
			if err := p.expect(","); err != nil {
				return nil, false, err
			}
		}
	}
	ps, v, err := plist()
	if err != nil {
		return nil, err
	}
	fs.Params = ps
	fs.Variadic = v
	if p.isOp("(") {
		rs, _, err := plist()
		if err != nil {
			return nil, err
		}
		fs.Results = rs
	} else if p.peek().k != tEOF {
		return nil, fmt.Errorf("results must be named and parenthesised in %q", text)
	}
	return fs, nil
}

func splitTop(s string, sep byte) []string {
	var out []string
	depth := 0
	last := 0
	inStr := false
	for i := 0; i < len(s); i++ {
		c := s[i]
		if c == '"' {
			inStr = !inStr
		}
		if inStr {
			continue
		}
		if c == '(' || c == '[' {
			depth++
		} else if c == ')' || c == ']' {
			depth--
		} else if c == sep && depth == 0 {
			out = append(out, strings.TrimSpace(s[last:i]))
			last = i + 1
		}
	}
	out = append(out, strings.TrimSpace(s[last:]))
	return out
}

// loadSpecFile parses one file. repoPkgPath != "" for contract files inside /repo (package known).
func (sp *Spec) loadSpecFile(path, prefix, pkgPath, pkgName string, assumed bool) error {
	items, err := readItems(path, prefix)
	if err != nil {
		return err
	}
	sp.Files = append(sp.Files, path)
	imports := map[string]string{}
	var cur *FuncSpec
	var curHook *WriteHook
	for _, it := range items {
		where := fmt.Sprintf("%s:%d", path, it.line)
		fail := func(err error) error { return fmt.Errorf("%s: %v", where, err) }
		if topKeywords[it.kw] {
			cur = nil
			curHook = nil
		}
		switch it.kw {
		case "package":
			f := strings.Fields(it.text)
			pkgPath = f[0]
			pkgName = filepath.Base(pkgPath)
			if len(f) > 1 {
				pkgName = f[1]
			}
			imports = map[string]string{}
		case "import":
			f := strings.Fields(it.text)
			if len(f) == 1 {
				p := strings.Trim(f[0], `"`)
				imports[filepath.Base(p)] = p
			} else {
				imports[f[0]] = strings.Trim(f[1], `"`)
			}
		case "typeinv":
			// typeinv T(x) [by F1, F2]: expr
			m := regexp.MustCompile(`^(\w+)\((\w+)\)\s*(?:by\s+([^:]+))?:\s*(.*)$`).FindStringSubmatch(it.text)
			if m == nil {
				return fail(fmt.Errorf("typeinv T(x) [by F,...]: expr"))
			}
			e, err := parseExpr(m[4])
			if err != nil {
				return fail(err)
			}
			ti := &TypeInv{Type: m[1], Var: m[2], E: e, Src: m[4], PkgPath: pkgPath, Imports: imports, Assumed: assumed}
			for _, b := range strings.Split(m[3], ",") {
				if b = strings.TrimSpace(b); b != "" {
					ti.By = append(ti.By, pkgPath+"."+b)
				}
			}
			sp.TypeInvs[pkgPath+"."+m[1]] = ti
		case "sort":
			for _, n := range strings.Fields(it.text) {
				sp.Sorts[n] = true
			}
		case "pure":
			sp.PurePats = append(sp.PurePats, strings.Fields(it.text)...)
		case "ghost":
			f := strings.SplitN(it.text, " ", 3)
			if len(f) < 3 {
				return fail(fmt.Errorf("bad ghost declaration"))
			}
			toks, err := lex(f[2])
			if err != nil {
				return fail(err)
			}
			p := &parser{toks: toks, src: f[2]}
			ty, err := p.typeExpr()
			if err != nil {
				return fail(err)
			}
			gd := &GhostDecl{Name: f[1], Type: ty, PkgPath: pkgPath, Imports: imports}
			switch f[0] {
			case "field":
				sp.GhostFields[pkgPath+"."+f[1]] = gd
			case "var":
				sp.GhostVars[f[1]] = gd
			case "local":
				gd.Local = true
				sp.GhostVars[f[1]] = gd
			default:
				return fail(fmt.Errorf("ghost field|var|local expected"))
			}
		case "guarded_by":
			// guarded_by T.lock: f1, f2
			parts := strings.SplitN(it.text, ":", 2)
			tl := strings.Split(strings.TrimSpace(parts[0]), ".")
			if len(parts) != 2 || len(tl) != 2 {
				return fail(fmt.Errorf("guarded_by T.lock: fields"))
			}
			for _, f := range strings.Split(parts[1], ",") {
				sp.Guarded[pkgPath+"."+tl[0]+"."+strings.TrimSpace(f)] = tl[1]
			}
		case "immutable":
			if strings.HasPrefix(strings.TrimSpace(it.text), "cells(") {
				sp.ImmutableCells = append(sp.ImmutableCells, ImmCells{Loc: strings.TrimSpace(it.text), PkgPath: pkgPath, Imports: imports})
				break
			}
			parts := strings.SplitN(it.text, ":", 2)
			if len(parts) != 2 {
				return fail(fmt.Errorf("immutable T: fields"))
			}
			for _, f := range strings.Split(parts[1], ",") {
				sp.Immutable[pkgPath+"."+strings.TrimSpace(parts[0])+"."+strings.TrimSpace(f)] = true
			}
		case "confined":
			for _, t := range strings.Split(it.text, ",") {
				if t = strings.TrimSpace(t); t != "" {
					sp.Confined[pkgPath+"."+t] = true
				}
			}
		case "lockinv":
			// lockinv T.lock(x): expr
			m := regexp.MustCompile(`^(\w+)\.(\w+)\((\w+)\)\s*(?:\[([^\]]+)\])?\s*:\s*(.*)$`).FindStringSubmatch(it.text)
			if m == nil {
				return fail(fmt.Errorf("lockinv T.lock(x) [label]: expr"))
			}
			e, err := parseExpr(m[5])
			if err != nil {
				return fail(err)
			}
			lk := pkgPath + "." + m[1] + "." + m[2]
			lbl := m[4]
			if lbl == "" {
				lbl = fmt.Sprintf("li%d", len(sp.LockInvs[lk]))
			}
			sp.LockInvs[lk] = append(sp.LockInvs[lk], &LockInv{Label: lbl, Type: m[1], Field: m[2], Var: m[3], E: e, Src: m[5], PkgPath: pkgPath, Imports: imports})
		case "pred", "spec":
			text := it.text
			isPred := it.kw == "pred"
			if !isPred {
				text = strings.TrimSpace(strings.TrimPrefix(text, "func"))
			}
			var body string
			if i := strings.Index(text, ":="); i >= 0 {
				body = strings.TrimSpace(text[i+2:])
				text = strings.TrimSpace(text[:i])
			}
			// header: name(params) [result]
			hdr := text
			var resT *TypeExpr
			if !isPred {
				// result type follows the closing paren
				j := strings.LastIndex(hdr, ")")
				rt := strings.TrimSpace(hdr[j+1:])
				hdr = hdr[:j+1]
				if rt == "" {
					return fail(fmt.Errorf("spec func needs a result type"))
				}
				toks, err := lex(rt)
				if err != nil {
					return fail(err)
				}
				pp := &parser{toks: toks, src: rt}
				resT, err = pp.typeExpr()
				if err != nil {
					return fail(err)
				}
			}
			fs, err := parseFuncHeader(hdr)
			if err != nil {
				return fail(err)
			}
			sf := &SpecFunc{Name: fs.Name, Params: fs.Params, Result: resT, Src: body, PkgPath: pkgPath, Imports: imports}
			if body != "" {
				e, err := parseExpr(body)
				if err != nil {
					return fail(err)
				}
				sf.Body = e
			}
			if _, dup := sp.Preds[fs.Name]; dup {
				return fail(fmt.Errorf("duplicate spec function %s", fs.Name))
			}
			sp.Preds[fs.Name] = sf
		case "axiom", "lemma":
			text := it.text
			name := ""
			strs := false
			if m := labelRe.FindStringSubmatch(text); m != nil {
				name = m[1]
				text = text[len(m[0]):]
			}
			if strings.HasPrefix(text, "strings:") {
				strs = true
				text = strings.TrimSpace(strings.TrimPrefix(text, "strings:"))
			}
			hide, except := "", []string(nil)
			var using []string
			if m := hideRe.FindStringSubmatch(text); m != nil && it.kw == "lemma" && (strings.HasPrefix(text, "hide ") || strings.HasPrefix(text, "using ")) {
				hide = m[1]
				for _, x := range strings.Split(m[3], ",") {
					if x = strings.TrimSpace(x); x != "" {
						using = append(using, x)
					}
				}
				for _, x := range strings.Split(m[2], ",") {
					if x = strings.TrimSpace(x); x != "" {
						except = append(except, x)
					}
				}
				text = text[len(m[0]):]
			}
			e, err := parseExpr(text)
			if err != nil {
				return fail(err)
			}
			sp.Axioms = append(sp.Axioms, &Axiom{Name: name, E: e, Src: text, PkgPath: pkgPath, Imports: imports, Lemma: it.kw == "lemma", Strings: strs, File: where, Global: it.kw == "axiom", Hide: hide, Reveal: except, Using: using})
		case "on":
			// on write T.f(x, o, n)
			m := regexp.MustCompile(`^write\s+(\w+)\.(\w+)\((\w+),\s*(\w+),\s*(\w+)\)\s*:?$`).FindStringSubmatch(it.text)
			if m == nil {
				return fail(fmt.Errorf("on write T.f(x, old, new):"))
			}
			curHook = &WriteHook{Type: m[1], Field: m[2], X: m[3], Old: m[4], New: m[5], PkgPath: pkgPath, Imports: imports}
			sp.Hooks[pkgPath+"."+m[1]+"."+m[2]] = curHook
		case "func", "functype":
			fs, err := parseFuncHeader(it.text)
			if err != nil {
				return fail(err)
			}
			fs.PkgPath = pkgPath
			fs.PkgName = pkgName
			fs.File = path
			fs.Line = it.line
			fs.Assumed = assumed
			fs.Imports = imports
			recv := ""
			if fs.RecvType != nil {
				t := fs.RecvType
				for t.Kind == "ptr" {
					t = t.Elem
				}
				recv = t.Name
				if i := strings.LastIndex(recv, "."); i >= 0 {
					recv = recv[i+1:]
				}
				recv += "."
			}
			fs.Key = pkgPath + "." + recv + fs.Name
			if it.kw == "functype" {
				sp.FuncTypes[fs.Key] = fs
			} else {
				if _, dup := sp.Funcs[fs.Key]; dup {
					return fail(fmt.Errorf("duplicate contract for %s", fs.Key))
				}
				sp.Funcs[fs.Key] = fs
			}
			cur = fs
		case "assert", "update":
			if curHook == nil {
				return fail(fmt.Errorf("%s outside an 'on write' block", it.kw))
			}
			if it.kw == "assert" {
				c, err := parseClause(it.text, where)
				if err != nil {
					return err
				}
				curHook.Asserts = append(curHook.Asserts, c)
			} else {
				parts := strings.SplitN(it.text, ":=", 2)
				if len(parts) != 2 {
					return fail(fmt.Errorf("update target := value"))
				}
				te, err := parseExpr(strings.TrimSpace(parts[0]))
				if err != nil {
					return fail(err)
				}
				ve, err := parseExpr(strings.TrimSpace(parts[1]))
				if err != nil {
					return fail(err)
				}
				curHook.Updates = append(curHook.Updates, GhostUpdate{Target: te, Value: ve, Src: it.text})
			}
		default:
			if cur == nil {
				return fail(fmt.Errorf("clause %q outside a function contract", it.kw))
			}
			switch it.kw {
			case "precall":
				m := regexp.MustCompile(`^([\w./$*()-]+)#(\d+)\s+(.*)$`).FindStringSubmatch(it.text)
				if m == nil {
					return fail(fmt.Errorf("precall callee#k [label] expr"))
				}
				k, _ := strconv.Atoi(m[2])
				c, err := parseClause(m[3], where)
				if err != nil {
					return err
				}
				if c.Label == "" {
					c.Label = fmt.Sprintf("pc%d", it.line)
				}
				cur.PreCalls = append(cur.PreCalls, PreCall{Callee: m[1], K: k, C: c})
			case "virtual":
				cur.Virtual = true
				cur.Trusted = true
			case "callsite":
				m := regexp.MustCompile(`^([\w./$*()-]+)#(\d+)\s*:\s*(\w+)\((.*)\)$`).FindStringSubmatch(it.text)
				if m == nil {
					return fail(fmt.Errorf("callsite callee#k: vfunc(args)"))
				}
				k, _ := strconv.Atoi(m[2])
				cs := CallSiteSpec{Callee: m[1], K: k, Fn: m[3], Src: it.text}
				for _, a := range splitTop(m[4], ',') {
					if a == "" {
						continue
					}
					e, err := parseExpr(a)
					if err != nil {
						return fail(err)
					}
					cs.Args = append(cs.Args, e)
				}
				cur.CallSites = append(cur.CallSites, cs)
			case "requires", "ensures", "ensures_on_panic", "atunlock", "ensures_local":
				c, err := parseClause(it.text, where)
				if err != nil {
					return err
				}
				if c.Label == "" {
					c.Label = fmt.Sprintf("%s%d", it.kw[:3], it.line)
				}
				switch it.kw {
				case "requires":
					cur.Requires = append(cur.Requires, c)
				case "ensures":
					cur.Ensures = append(cur.Ensures, c)
				case "ensures_on_panic":
					cur.EnsuresPanic = append(cur.EnsuresPanic, c)
				case "atunlock":
					cur.AtUnlock = append(cur.AtUnlock, c)
				case "ensures_local":
					cur.EnsuresLocal = append(cur.EnsuresLocal, c)
				}
			case "modifies":
				cur.HasModifies = true
				if strings.TrimSpace(it.text) == "nothing" {
					break
				}
				for _, loc := range splitTop(it.text, ',') {
					if loc == "" {
						continue
					}
					if strings.HasPrefix(loc, "pointee(") {
						e, err := parseExpr(strings.TrimSuffix(strings.TrimPrefix(loc, "pointee("), ")"))
						if err != nil {
							return fail(err)
						}
						cur.Modifies = append(cur.Modifies, ModLoc{Src: loc, E: e, All: "pointee"})
						continue
					}
					if loc == "heap" || strings.Contains(loc, "::") || strings.HasPrefix(loc, "cells(") {
						cur.Modifies = append(cur.Modifies, ModLoc{Src: loc, All: loc})
						continue
					}
					e, err := parseExpr(loc)
					if err != nil {
						return fail(err)
					}
					cur.Modifies = append(cur.Modifies, ModLoc{Src: loc, E: e})
				}
			case "nopanic":
				cur.NoPanic = true
			case "effectfree":
				cur.Pure = true
			case "boundedalloc":
				cur.BoundedAlloc = true
			case "uses":
				// lemmas are facts only for the functions that ask for them
				for _, x := range strings.Split(it.text, ",") {
					if x = strings.TrimSpace(x); x != "" {
						cur.UseAxioms = append(cur.UseAxioms, x)
					}
				}
			case "trusted", "assumed":
				cur.Trusted = true
			case "inline":
				cur.Inline = true
			case "strings":
				cur.Strings = true
			case "acquires":
				cur.Acquires = true
			case "rangeloop":
				m := regexp.MustCompile(`^(\d+)\s*:\s*(invariant|modifies)\s+(.*)$`).FindStringSubmatch(it.text)
				if m == nil {
					return fail(fmt.Errorf("rangeloop k: invariant e | modifies locs"))
				}
				k, _ := strconv.Atoi(m[1])
				ls := cur.RangeLoops[k]
				if ls == nil {
					ls = &LoopSpec{}
					cur.RangeLoops[k] = ls
				}
				if m[2] == "modifies" {
					if err := parseLoopModifies(ls, m[3]); err != nil {
						return fail(err)
					}
					break
				}
				c, err := parseClause(m[3], where)
				if err != nil {
					return err
				}
				if c.Label == "" {
					c.Label = fmt.Sprintf("R%d", it.line)
				}
				ls.Invs = append(ls.Invs, c)
			case "loop":
				// loop k: invariant [label] e   |  loop k: decreases e
				m := regexp.MustCompile(`^(\d+)\s*:\s*(invariant|decreases|modifies)\s+(.*)$`).FindStringSubmatch(it.text)
				if m == nil {
					return fail(fmt.Errorf("loop k: invariant e"))
				}
				k, _ := strconv.Atoi(m[1])
				ls := cur.Loops[k]
				if ls == nil {
					ls = &LoopSpec{}
					cur.Loops[k] = ls
				}
				if m[2] == "modifies" {
					if err := parseLoopModifies(ls, m[3]); err != nil {
						return fail(err)
					}
					break
				}
				c, err := parseClause(m[3], where)
				if err != nil {
					return err
				}
				if c.Label == "" {
					c.Label = fmt.Sprintf("L%d", it.line)
				}
				if m[2] == "invariant" {
					ls.Invs = append(ls.Invs, c)
				} else {
					ls.Decreases = &c
				}
			}
		}
	}
	return nil
}

// loadAllSpecs reads contract files of the repo packages and the libspec directory.
func loadAllSpecs(repo string, libdir string, pkgDirs map[string]string, pkgNames map[string]string) (*Spec, error) {
	sp := newSpec()
	var paths []string
	for p := range pkgDirs {
		paths = append(paths, p)
	}
	sort.Strings(paths)
	for _, pp := range paths {
		f := filepath.Join(pkgDirs[pp], "contracts_verif.go")
		if _, err := os.Stat(f); err == nil {
			if err := sp.loadSpecFile(f, "//@", pp, pkgNames[pp], false); err != nil {
				return nil, err
			}
		}
	}
	libs, _ := filepath.Glob(filepath.Join(libdir, "*.spec"))
	sort.Strings(libs)
	for _, f := range libs {
		if err := sp.loadSpecFile(f, "", "", "", true); err != nil {
			return nil, err
		}
	}
	return sp, nil
}

func parseLoopModifies(ls *LoopSpec, text string) error {
	ls.HasModifies = true
	if strings.TrimSpace(text) == "nothing" {
		return nil
	}
	for _, loc := range splitTop(text, ',') {
		if loc == "" {
			continue
		}
		if strings.HasPrefix(loc, "cells(") || strings.Contains(loc, "::") {
			ls.Modifies = append(ls.Modifies, ModLoc{Src: loc, All: loc})
			continue
		}
		e, err := parseExpr(strings.TrimSuffix(loc, "[*]"))
		if err != nil {
			return err
		}
		ml := ModLoc{Src: loc, E: e}
		if strings.HasSuffix(loc, "[*]") {
			ml.All = "elems"
		}
		ls.Modifies = append(ls.Modifies, ml)
	}
	return nil
}
