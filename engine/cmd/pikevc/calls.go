package main

// Calls: contracts at call sites, locks, defers, inlined closures, builtins.

import (
	"fmt"
	"go/token"
	"go/types"
	"sort"
	"strings"

	"golang.org/x/tools/go/ssa"
)

func matchPure(pats []string, key string) bool {
	for _, p := range pats {
		if strings.HasSuffix(p, "*") {
			if strings.HasPrefix(key, strings.TrimSuffix(p, "*")) {
				return true
			}
		} else if p == key {
			return true
		}
	}
	return false
}

var lockOps = map[string]string{
	"sync.RWMutex.Lock": "lock", "sync.RWMutex.Unlock": "unlock", "sync.RWMutex.RLock": "rlock", "sync.RWMutex.RUnlock": "runlock",
	"sync.Mutex.Lock": "lock", "sync.Mutex.Unlock": "unlock",
}

func (g *gen) execCall(fr *frame, cur *node, st *State, c *ssa.CallCommon, pos token.Pos, instr ssa.Instruction) (Val, *node) {
	sig := c.Signature()
	resType := sig.Results()
	mkResult := func() Val {
		switch resType.Len() {
		case 0:
			return nil
		case 1:
			v, as := g.freshVal("ret", resType.At(0).Type(), st)
			for _, a := range as {
				cur.assume(a)
			}
			return v
		}
		v, as := g.freshVal("ret", resType, st)
		for _, a := range as {
			cur.assume(a)
		}
		return v
	}
	// builtins
	if b, ok := c.Value.(*ssa.Builtin); ok {
		return g.execBuiltin(fr, cur, st, b, c, pos, instr), cur
	}
	var args []Val
	var key string
	var callee *ssa.Function
	var fs *FuncSpec
	if c.IsInvoke() {
		key = methodKey(c.Method)
		recv := g.sval(fr, c.Value)
		g.safety(cur, "nil", "iface", pos, not(app("=", recv, "inil")))
		args = append(args, recv)
		for _, a := range c.Args {
			args = append(args, g.val(fr, a))
		}
		fs = g.P.spec.Funcs[key]
	} else if callee = c.StaticCallee(); callee != nil {
		key = funcKey(callee)
		for _, a := range c.Args {
			args = append(args, g.val(fr, a))
		}
		if op, ok := lockOps[key]; ok {
			return nil, g.lockOp(fr, cur, st, op, c.Args[0], pos)
		}
		if key == "sync.Map.Range" && fr.top && instr != nil {
			var mc *ssa.MakeClosure
			switch a := c.Args[1].(type) {
			case *ssa.MakeClosure:
				mc = a
			case *ssa.ChangeType:
				mc, _ = a.X.(*ssa.MakeClosure)
			}
			if mc != nil {
				return nil, g.execMapRange(fr, cur, st, g.sval(fr, c.Args[0]), mc, pos, instr)
			}
		}
		fs = g.P.spec.Funcs[key]
		if mc, ok := c.Value.(*ssa.MakeClosure); ok {
			if fs == nil || fs.Inline {
				var binds []Val
				for _, b := range mc.Bindings {
					binds = append(binds, g.val(fr, b))
				}
				if g.spawning {
					// go func(){...}(): the body runs concurrently; from here on the heap may change
					g.spawning = false
					g.havocHeap(cur, st)
					g.used["assume:spawned closure "+shortKey(funcKey(mc.Fn.(*ssa.Function)))+" treated as arbitrary concurrent heap effects"] = true
					return nil, cur
				}
				return g.execInline(fr, cur, st, mc.Fn.(*ssa.Function), binds, args, pos)
			}
		}
		if (fs == nil || fs.Inline) && len(callee.Blocks) > 0 && len(callee.FreeVars) == 0 && !matchPure(g.P.spec.PurePats, key) &&
			callee.Pkg != nil && strings.HasPrefix(callee.Pkg.Pkg.Path(), "github.com/vicanso/pike/") {
			if fr.top && instr != nil && len(g.fs.PreCalls) > 0 {
				g.preCallAsserts(fr, cur, st, key, instr, pos, c) // precall clauses also bind to helpers executed in place
			}
			if g.spawning {
				g.spawning = false
				g.havocHeap(cur, st)
				g.used["assume:spawned function "+shortKey(key)+" treated as arbitrary concurrent heap effects"] = true
				return nil, cur
			}
			return g.execInline(fr, cur, st, callee, nil, args, pos)
		}
	} else {
		// dynamic call of a function value
		if ld, ok := c.Value.(*ssa.UnOp); ok && ld.Op == token.MUL {
			if fa, ok := ld.X.(*ssa.FieldAddr); ok {
				if pt, ok := fa.X.Type().Underlying().(*types.Pointer); ok {
					if sk, ok := namedStructKey(pt.Elem()); ok {
						s, _ := isStruct(pt.Elem())
						key = sk + "." + s.Field(fa.Field).Name()
						if fs = g.P.spec.FuncTypes[key]; fs != nil {
							args = append(args, g.sval(fr, fa.X))
						}
					}
				}
			}
		}
		fv := g.sval(fr, c.Value)
		if fs == nil {
			if nk, ok := namedStructKey(c.Value.Type()); ok {
				key = nk
				fs = g.P.spec.FuncTypes[key]
				if fs == nil {
					if fs = g.P.spec.FuncTypes[key+".call"]; fs != nil {
						args = append(args, fv)
					}
				}
			}
		}
		if fs == nil {
			key = "func-value:" + c.Value.Type().String()
		}
		g.safety(cur, "nil", "func", pos, not(app("=", fv, "null")))
		for _, a := range c.Args {
			args = append(args, g.val(fr, a))
		}
	}
	if fr.top && key != "" && instr != nil && len(g.fs.PreCalls) > 0 {
		g.preCallAsserts(fr, cur, st, key, instr, pos, c)
	}
	if fr.top && key != "" {
		if vfs, vargs, vsig, ok := g.callSiteOverride(fr, st, key, instr); ok {
			g.used["assumed:"+vfs.Key+" (call-site contract for "+shortKey(key)+")"] = true
			return g.applyContract(fr, cur, st, vfs, vsig, vargs, pos)
		}
	}
	if fs == nil {
		if matchPure(g.P.spec.PurePats, key) {
			g.used["pure:"+key] = true
			return mkResult(), cur
		}
		g.errorf("%s: no contract for callee %s (at %s)", g.name, key, g.pos(pos))
		return mkResult(), cur
	}
	if g.fs != nil && g.fs.BoundedAlloc && !fs.BoundedAlloc && !fs.Pure {
		g.addObl(cur, "alloc", "alloc:call:"+shortKey(fs.Key), "callee has no boundedalloc clause", g.pos(pos), "false", false)
	}
	if fs.Assumed || fs.Trusted {
		g.used["assumed:"+fs.Key] = true
	} else {
		g.used["verified:"+fs.Key] = true
	}
	return g.applyContract(fr, cur, st, fs, sig, args, pos)
}

func (g *gen) applyContract(fr *frame, cur *node, st *State, fs *FuncSpec, sig *types.Signature, args []Val, pos token.Pos) (Val, *node) {
	short := shortKey(fs.Key)
	spawned := g.spawning
	g.spawning = false
	pre, err := g.bindParams(fs, nil, sig, args, nil, st, st)
	if err != nil {
		g.errorf("%s: call of %s: %v", g.name, fs.Key, err)
		return nil, cur
	}
	for _, c := range fs.Requires {
		t, err := pre.trAssert(c.E)
		if err != nil {
			g.errorf("%s: requires [%s] of %s: %v", g.name, c.Label, fs.Key, err)
			continue
		}
		g.addObl(cur, "pre", "pre:"+short+":"+c.Label, c.Src, g.pos(pos), t, false)
	}
	if fs.Acquires {
		// calling something that takes a lock while holding one: lock-order obligation
		h := g.svGet(st, "$held", "(Array Ref Int)")
		g.addObl(cur, "lock-order", "lockorder:"+short, "no lock held when calling a function that acquires one", g.pos(pos),
			app("=", h, g.svGet(&State{m: map[string]string{}}, "$held", "(Array Ref Int)")), false)
	}
	old := st.clone()
	if !fs.Pure {
		nx := g.svGet(st, "$nxt", "Int")
		nn := g.svFresh(st, "$nxt", "Int")
		cur.assume(app(">=", nn, nx))
		post0 := &env{}
		*post0 = *pre
		post0.st = old
		g.havocModifies(cur, fs, post0, st)
	}
	if !fs.NoPanic && !fs.Pure {
		if fr.inDefer && g.inPanicExit {
			g.used["assume:no-second-panic-while-unwinding"] = true
		} else {
			g.panicPreds = append(g.panicPreds, predRec{nil, cur, st.clone(), nil})
			nn := g.newNode("after-call")
			cur.succs = append(cur.succs, &edge{nn, nil})
			cur = nn
		}
	}
	var results []Val
	for i := 0; i < sig.Results().Len(); i++ {
		v, as := g.freshVal("r."+fs.Name, sig.Results().At(i).Type(), st)
		for _, a := range as {
			cur.assume(a)
		}
		results = append(results, v)
	}
	post, err := g.bindParams(fs, nil, sig, args, results, st, old)
	if err != nil {
		g.errorf("%s: call of %s: %v", g.name, fs.Key, err)
	} else {
		for _, c := range fs.Ensures {
			if spawned && !strings.HasPrefix(c.Label, "spawn") {
				continue
			}
			t, err := post.trAssume(c.E)
			if err != nil {
				g.errorf("%s: ensures [%s] of %s: %v", g.name, c.Label, fs.Key, err)
				continue
			}
			cur.assume(t)
		}
	}
	switch len(results) {
	case 0:
		return nil, cur
	case 1:
		return results[0], cur
	}
	return &TV{E: results}, cur
}

// ---- locks ----

type lockOwner struct {
	base      string
	structT   types.Type
	lockField string
}

func (g *gen) lockOwnerOf(fr *frame, m ssa.Value) *lockOwner {
	ld, ok := m.(*ssa.UnOp)
	if !ok || ld.Op != token.MUL {
		return nil
	}
	fa, ok := ld.X.(*ssa.FieldAddr)
	if !ok {
		return nil
	}
	pt, ok := fa.X.Type().Underlying().(*types.Pointer)
	if !ok {
		return nil
	}
	s, ok := isStruct(pt.Elem())
	if !ok {
		return nil
	}
	return &lockOwner{base: g.sval(fr, fa.X), structT: pt.Elem(), lockField: s.Field(fa.Field).Name()}
}

func (g *gen) lockOp(fr *frame, cur *node, st *State, op string, mv ssa.Value, pos token.Pos) *node {
	m := g.sval(fr, mv)
	g.safety(cur, "nil", "mutex", pos, not(app("=", m, "null")))
	ow := g.lockOwnerOf(fr, mv)
	held := g.svGet(st, "$held", "(Array Ref Int)")
	hs := "(Array Ref Int)"
	site := g.lockSiteOrd[pos]
	switch op {
	case "lock", "rlock":
		g.safety(cur, "lockfree", "", pos, app("=", app("select", held, m), "0"))
		mode := "1"
		if op == "rlock" {
			mode = "2"
		}
		g.svAssign(cur, st, "$held", hs, app("store", held, m, mode))
		if ow != nil {
			sk, _ := namedStructKey(ow.structT)
			s, _ := isStruct(ow.structT)
			for i := 0; i < s.NumFields(); i++ {
				f := s.Field(i)
				if g.P.spec.Guarded[sk+"."+f.Name()] != ow.lockField {
					continue
				}
				if _, isS := isStruct(f.Type()); isS {
					continue
				}
				name := fieldMapName(ow.structT, f.Name())
				srt := "(Array Ref " + sortOf(f.Type()) + ")"
				fv := g.c.fresh(name+".locked", sortOf(f.Type()))
				g.svAssign(cur, st, name, srt, app("store", g.svGet(st, name, srt), ow.base, fv))
				for _, a := range g.typeInv(fv, f.Type(), st) {
					cur.assume(a)
				}
				if sl, ok := f.Type().Underlying().(*types.Slice); ok {
					if _, isS := isStruct(sl.Elem()); !isS && !g.cellsImmutable(sl.Elem()) {
						// elements of a guarded slice may have been overwritten in place by other goroutines,
						// unless in-place writes to such cells are excluded (immutable cells(T), checked at every store)
						g.svFresh(st, cellMapName(sl.Elem()), "(Array Ref "+sortOf(sl.Elem())+")")
					}
				}
			}
			// guarded state of an object reached through an (immutable) pointer field: "f.ghost"
			for gk, lf := range g.P.spec.Guarded {
				if lf != ow.lockField || !strings.HasPrefix(gk, sk+".") {
					continue
				}
				rest := strings.TrimPrefix(gk, sk+".")
				parts := strings.Split(rest, ".")
				if len(parts) != 2 {
					continue
				}
				for i := 0; i < s.NumFields(); i++ {
					f := s.Field(i)
					if f.Name() != parts[0] {
						continue
					}
					pt, ok := f.Type().Underlying().(*types.Pointer)
					if !ok {
						continue
					}
					tgt := app("select", g.svGet(st, fieldMapName(ow.structT, f.Name()), "(Array Ref Ref)"), ow.base)
					name, srt, ok := g.fieldVar(pt.Elem(), parts[1])
					if !ok {
						g.errorf("guarded_by %s: unknown field %s", gk, parts[1])
						continue
					}
					fv := g.c.fresh(name+".locked", arrayElemSort(srt))
					g.svAssign(cur, st, name, srt, app("store", g.svGet(st, name, srt), tgt, fv))
				}
			}
			for _, li := range g.P.spec.LockInvs[sk+"."+ow.lockField] {
				e := &env{g: g, vars: map[string]binding{li.Var: {ow.base, xtOf(types.NewPointer(ow.structT))}}, st: st, old: st, pkgPath: li.PkgPath, imports: li.Imports}
				t, err := e.trAssume(li.E)
				if err != nil {
					g.errorf("lockinv %s.%s: %v", li.Type, li.Field, err)
					continue
				}
				cur.assume(t)
			}
		}
		g.takeSnapshot(st, fmt.Sprintf("lock%d", site))
		g.takeSnapshot(st, "lastlock")
	case "unlock", "runlock":
		want := "1"
		if op == "runlock" {
			want = "2"
		}
		g.safety(cur, "unlockheld", "", pos, app("=", app("select", held, m), want))
		if ow != nil && op == "unlock" {
			sk, _ := namedStructKey(ow.structT)
			for _, li := range g.P.spec.LockInvs[sk+"."+ow.lockField] {
				e := &env{g: g, vars: map[string]binding{li.Var: {ow.base, xtOf(types.NewPointer(ow.structT))}}, st: st, old: st, pkgPath: li.PkgPath, imports: li.Imports}
				t, err := e.trAssert(li.E)
				if err != nil {
					g.errorf("lockinv %s.%s: %v", li.Type, li.Field, err)
					continue
				}
				g.addObl(cur, "lockinv", "lockinv:"+li.Label, li.Src, g.pos(pos), t, false)
			}
		}
		if fr.top || true {
			e := g.topEnv(st, &State{m: map[string]string{}}, nil)
			for _, c := range g.fs.AtUnlock {
				t, err := e.trAssert(c.E)
				if err != nil {
					g.errorf("%s: atunlock [%s]: %v", g.name, c.Label, err)
					continue
				}
				if f, ok := g.known[g.name+"/atunlock:"+c.Label]; ok && f.Region != "" {
					if re, err := parseExpr(f.Region); err == nil {
						if rt, err := e.trBool(re); err == nil {
							g.addObl(cur, "finding", "atunlock:"+c.Label+"@finding", c.Src, g.pos(pos), t, false)
							t = or(rt, t)
						} else {
							g.errorf("known finding region for %s: %v", c.Label, err)
						}
					}
				}
				g.addObl(cur, "atunlock", "atunlock:"+c.Label, c.Src, g.pos(pos), t, false)
			}
		}
		g.takeSnapshot(st, fmt.Sprintf("unlock%d", site))
		g.takeSnapshot(st, "lastunlock")
		g.svAssign(cur, st, "$held", hs, app("store", g.svGet(st, "$held", hs), m, "0"))
	}
	return cur
}

// ---- defers ----

func (g *gen) reaches(from, to *ssa.BasicBlock) bool {
	if from == to {
		return true
	}
	seen := map[*ssa.BasicBlock]bool{from: true}
	stack := []*ssa.BasicBlock{from}
	for len(stack) > 0 {
		b := stack[len(stack)-1]
		stack = stack[:len(stack)-1]
		for _, s := range b.Succs {
			if s == to {
				return true
			}
			if !seen[s] {
				seen[s] = true
				stack = append(stack, s)
			}
		}
	}
	return false
}

// runDefers executes pending deferred calls in LIFO order. at == nil: panic exit (all sites).
func (g *gen) runDefers(fr *frame, cur *node, st *State, at *ssa.BasicBlock, panicking bool) *node {
	for i := len(g.deferSites) - 1; i >= 0; i-- {
		d := g.deferSites[i]
		if at != nil && !g.reaches(d.Block(), at) {
			continue
		}
		flag := g.svGet(st, fmt.Sprintf("$defer.%d", i), "Bool")
		if flag == "false" {
			continue
		}
		// then-branch
		thenN := g.newNode(fmt.Sprintf("defer%d", i))
		cur.succs = append(cur.succs, &edge{thenN, []string{flag}})
		thenSt := st.clone()
		g.svSet(thenSt, fmt.Sprintf("$defer.%d", i), "Bool", "false")
		saved := fr.inDefer
		fr.inDefer = true
		_, endN := g.execCall(fr, thenN, thenSt, d.Common(), d.Pos(), nil)
		fr.inDefer = saved
		if flag == "true" {
			// certainly armed: no else branch
			for k := range st.m {
				delete(st.m, k)
			}
			for k, v := range thenSt.m {
				st.m[k] = v
			}
			cur = endN
			continue
		}
		preds := []predRec{{nil, endN, thenSt, nil}, {nil, cur, st.clone(), []string{not(flag)}}}
		jn, jst := g.joinPreds(preds, "defer-join")
		for k := range st.m {
			delete(st.m, k)
		}
		for k, v := range jst.m {
			st.m[k] = v
		}
		cur = jn
	}
	return cur
}

// ---- inlined closures ----

func (g *gen) execInline(fr *frame, cur *node, st *State, fn *ssa.Function, binds []Val, args []Val, pos token.Pos) (Val, *node) {
	if g.inlineDepth > 3 {
		g.errorf("%s: closure inlining too deep", g.name)
		return nil, cur
	}
	g.inlineDepth++
	defer func() { g.inlineDepth-- }()
	nf := &frame{fn: fn, vals: map[ssa.Value]Val{}, closures: map[ssa.Value]*ssa.MakeClosure{}, inDefer: fr.inDefer}
	for i, fv := range fn.FreeVars {
		if i < len(binds) {
			nf.vals[fv] = binds[i]
		}
	}
	for i, p := range fn.Params {
		if i < len(args) {
			nf.vals[p] = args[i]
		}
	}
	g.used["inlined:"+funcKey(fn)] = true
	exits := g.execFunc(nf, cur, st)
	if len(exits) == 0 {
		dead := g.newNode("inline-noreturn")
		dead.assume("false")
		return nil, dead
	}
	var preds []predRec
	nres := fn.Signature.Results().Len()
	var results []Val
	for i := 0; i < nres; i++ {
		v, _ := g.freshVal("inl", fn.Signature.Results().At(i).Type(), nil)
		results = append(results, v)
	}
	for _, ex := range exits {
		var conds []string
		for i := 0; i < nres; i++ {
			conds = append(conds, eqVals(results[i], ex.results[i])...)
		}
		preds = append(preds, predRec{nil, ex.n, ex.st, conds})
	}
	jn, jst := g.joinPreds(preds, "inline-join")
	for k := range st.m {
		delete(st.m, k)
	}
	for k, v := range jst.m {
		st.m[k] = v
	}
	switch nres {
	case 0:
		return nil, jn
	case 1:
		return results[0], jn
	}
	return &TV{E: results}, jn
}

// ---- builtins ----

func (g *gen) execBuiltin(fr *frame, cur *node, st *State, b *ssa.Builtin, c *ssa.CallCommon, pos token.Pos, instr ssa.Instruction) Val {
	switch b.Name() {
	case "len":
		v := g.sval(fr, c.Args[0])
		switch sortOf(c.Args[0].Type()) {
		case "Slice":
			return app("slen", v)
		case "Str":
			return app("strlen", v)
		case "Ref": // map or chan
			if _, ok := c.Args[0].Type().Underlying().(*types.Map); ok {
				return g.mapLen(cur, st, v, c.Args[0].Type())
			}
			r := g.c.fresh("chanlen", "Int")
			cur.assume(app(">=", r, "0"))
			return r
		}
	case "cap":
		v := g.sval(fr, c.Args[0])
		if sortOf(c.Args[0].Type()) == "Slice" {
			return app("scap", v)
		}
	case "append":
		return g.execAppend(fr, cur, st, c, pos)
	case "copy":
		return g.execCopy(fr, cur, st, c, pos)
	case "delete":
		mt := c.Args[0].Type().Underlying().(*types.Map)
		if sortOf(mt.Elem()) == "STRUCT" || sortOf(mt.Key()) == "STRUCT" {
			g.errorf("%s: delete on map with struct key/value", g.name)
			return nil
		}
		_, _, dn, ds, _ := mapVars(c.Args[0].Type())
		m := g.sval(fr, c.Args[0])
		k := g.sval(fr, c.Args[1])
		dd := g.svGet(st, dn, ds)
		g.svAssign(cur, st, dn, ds, app("store", dd, m, app("store", app("select", dd, m), k, "false")))
		return nil
	case "recover":
		return "inil"
	case "ssa:wrapnilchk":
		v := g.sval(fr, c.Args[0])
		g.safety(cur, "nil", "", pos, not(app("=", v, "null")))
		return v
	case "print", "println":
		return nil
	}
	g.errorf("%s: unsupported builtin %s", g.name, b.Name())
	if instr != nil {
		if v, ok := instr.(ssa.Value); ok {
			r, _ := g.freshVal("builtin", v.Type(), nil)
			return r
		}
	}
	return nil
}

func (g *gen) mapLen(n *node, st *State, m string, t types.Type) string {
	mt := t.Underlying().(*types.Map)
	if sortOf(mt.Elem()) == "STRUCT" || sortOf(mt.Key()) == "STRUCT" {
		r := g.c.fresh("maplen", "Int")
		n.assume(app(">=", r, "0"))
		return r
	}
	_, _, dn, ds, _ := mapVars(t)
	ks := sortOf(mt.Key())
	fn := "mapcard_" + sanitize(ks)
	g.c.declareFun(fn, []string{"(Array " + ks + " Bool)"}, "Int")
	d := app("select", g.svGet(st, dn, ds), m)
	r := app("ite", app("=", m, "null"), "0", app(fn, d))
	n.assume(app(">=", app(fn, d), "0"))
	// card == 0 iff empty
	n.assume(app("=", app("=", app(fn, d), "0"), app("=", d, "((as const (Array "+ks+" Bool)) false)")))
	return r
}

// leafMaps lists the state maps holding values of element type el at a reference.
type leafMap struct {
	name, sort string
	path       []int // fld path from the element reference
}

func (g *gen) leafMaps(el types.Type, path []int, out *[]leafMap) {
	if s, ok := isStruct(el); ok {
		for i := 0; i < s.NumFields(); i++ {
			f := s.Field(i)
			if _, ok := isStruct(f.Type()); ok {
				g.leafMaps(f.Type(), append(append([]int{}, path...), i), out)
			} else if _, ok := f.Type().Underlying().(*types.Array); ok {
				continue
			} else {
				*out = append(*out, leafMap{fieldMapName(el, f.Name()), "(Array Ref " + sortOf(f.Type()) + ")", append([]int{}, path...)})
			}
		}
		return
	}
	if _, ok := el.Underlying().(*types.Array); ok {
		return
	}
	*out = append(*out, leafMap{cellMapName(el), "(Array Ref " + sortOf(el) + ")", append([]int{}, path...)})
}

func refPath(base string, path []int) string {
	r := base
	for _, i := range path {
		r = app("fld", r, fmt.Sprint(i))
	}
	return r
}

// append(s, t...): modelled as reallocation into a fresh backing array (capacity aliasing is not modelled).
func (g *gen) execAppend(fr *frame, cur *node, st *State, c *ssa.CallCommon, pos token.Pos) Val {
	s := g.sval(fr, c.Args[0])
	t := g.sval(fr, c.Args[1])
	if sortOf(c.Args[1].Type()) == "Str" {
		// append([]byte, string...)
		g.errorf("%s: append of string to []byte is outside the subset", g.name)
		return s
	}
	el := c.Args[0].Type().Underlying().(*types.Slice).Elem()
	nb := g.alloc(cur, st)
	ls, lt := app("slen", s), app("slen", t)
	total := app("+", ls, lt)
	r := g.c.fresh("appended", "Slice")
	cp := g.c.fresh("appcap", "Int")
	cur.assume(app(">=", cp, total))
	// An append grows in place when the capacity allows. That is observable only through another slice
	// over the same backing array, i.e. when the operand was obtained by re-slicing (x[:0], x[:n]) an
	// array somebody else still sees: then both outcomes are modelled. Otherwise the spare capacity
	// belongs to this slice alone and a fresh array is indistinguishable (recorded assumption).
	inPlace := "false"
	if resliced(c.Args[0], map[ssa.Value]bool{}) {
		inPlace = app("<=", total, app("scap", s))
		g.used["model:append to a re-sliced operand may grow in place (both outcomes explored)"] = true
		if g.cellsImmutable(el) {
			g.safety(cur, "immutable", "cells", pos, or(not(inPlace), app("=", lt, "0"), app(">=", app("sbase", s), g.c.declareConst("$nxt@init", "Int"))))
		}
	} else {
		g.used["assume:append-reallocates(operand not re-sliced in this function: spare capacity is not shared)"] = true
	}
	fresh := app("mkslice", nb, "0", total, cp)
	same := app("mkslice", app("sbase", s), app("soff", s), total, app("scap", s))
	cur.assume(app("=", r, app("ite", inPlace, same, fresh)))
	var lms []leafMap
	g.leafMaps(el, nil, &lms)
	for _, lm := range lms {
		oldM := g.svGet(st, lm.name, lm.sort)
		newM := g.svFresh(st, lm.name, lm.sort)
		src := func(sl, i string) string {
			return refPath(app("eref", sl, i), lm.path)
		}
		dst := func(i string) string { return refPath(app("eref", r, i), lm.path) }
		// what does not change: with a fresh array everything outside it; in place everything but the written range
		lo := app("+", app("soff", s), ls)
		hi := app("+", app("soff", s), total)
		written := and(app("=", "(rootid r)", app("sbase", s)), app("<=", lo, "(rootidx r)"), app("<", "(rootidx r)", hi))
		cur.assume(fmt.Sprintf("(forall ((r Ref)) (! (=> (ite %s (not %s) (not (= (rootid r) %s))) (= (select %s r) (select %s r))) :pattern ((select %s r))))",
			inPlace, written, nb, newM, oldM, newM))
		// the old elements (copied into a fresh array; untouched in place, which the frame above already says)
		cur.assume(fmt.Sprintf("(forall ((ai Int)) (! (=> (and (<= 0 ai) (< ai %s)) (= (select %s %s) (select %s %s))) :pattern ((select %s %s))))",
			ls, newM, dst("ai"), oldM, src(s, "ai"), newM, dst("ai")))
		cur.assume(fmt.Sprintf("(forall ((ai Int)) (! (=> (and (<= 0 ai) (< ai %s)) (= (select %s %s) (select %s %s))) :pattern ((select %s %s))))",
			lt, newM, dst(app("+", ls, "ai")), oldM, src(t, "ai"), newM, dst(app("+", ls, "ai"))))
		// the common single-element case, stated without a quantifier
		cur.assume(implies(app("=", lt, "1"), app("=", app("select", newM, dst(ls)), app("select", oldM, src(t, "0")))))
	}
	return r
}

// resliced: the value may be the result of a slice expression (x[a:b]) in this function.
func resliced(v ssa.Value, seen map[ssa.Value]bool) bool {
	if seen[v] {
		return false
	}
	seen[v] = true
	switch x := v.(type) {
	case *ssa.Slice:
		_, isSlice := x.X.Type().Underlying().(*types.Slice)
		return isSlice
	case *ssa.Phi:
		for _, e := range x.Edges {
			if resliced(e, seen) {
				return true
			}
		}
	case *ssa.Call:
		if b, ok := x.Call.Value.(*ssa.Builtin); ok && b.Name() == "append" {
			return resliced(x.Call.Args[0], seen)
		}
	case *ssa.UnOp:
		// a load of a local cell: look at what is stored into it
		if a, ok := x.X.(*ssa.Alloc); ok && x.Op == token.MUL {
			if refs := a.Referrers(); refs != nil {
				for _, rf := range *refs {
					if st, ok := rf.(*ssa.Store); ok && st.Addr == ssa.Value(a) && resliced(st.Val, seen) {
						return true
					}
				}
			}
		}
	}
	return false
}


func (g *gen) execCopy(fr *frame, cur *node, st *State, c *ssa.CallCommon, pos token.Pos) Val {
	dst := g.sval(fr, c.Args[0])
	dt, ok := c.Args[0].Type().Underlying().(*types.Slice)
	if !ok || !isByte(dt.Elem()) {
		g.errorf("%s: copy is only supported for byte slices", g.name)
		return g.c.fresh("copied", "Int")
	}
	if !g.c.strMode {
		return g.execCopyAbstract(fr, cur, st, c, dst, pos)
	}
	var src, slen string
	if sortOf(c.Args[1].Type()) == "Str" {
		src = g.sval(fr, c.Args[1])
		slen = app("str.len", src)
	} else {
		s := g.sval(fr, c.Args[1])
		src = g.bytesOf(st, s)
		slen = app("slen", s)
	}
	n := g.c.fresh("copied", "Int")
	cur.assume(app("=", n, app("ite", app("<", app("slen", dst), slen), app("slen", dst), slen)))
	g.spliceBytes(cur, st, app("sbase", dst), app("soff", dst), n, src)
	return n
}

// execCopyAbstract: copy into a byte slice with abstract byte strings. The destination buffer gets
// new contents of the same length: the copied range equals the source prefix, the ranges before and
// after it are unchanged. Writing into a buffer that existed before the call is an obligation where
// byte cells are declared immutable.
func (g *gen) execCopyAbstract(fr *frame, cur *node, st *State, c *ssa.CallCommon, dst string, pos token.Pos) Val {
	g.c.declareSort("Bytes")
	g.c.declareFun("bsub", []string{"Bytes", "Int", "Int"}, "Bytes")
	g.c.declareFun("u_blen", []string{"Bytes"}, "Int")
	var src, slen string
	if sortOf(c.Args[1].Type()) == "Str" {
		s := g.sval(fr, c.Args[1])
		g.c.declareFun("s2b", []string{"Str"}, "Bytes")
		src = app("s2b", s)
		slen = app("strlen", s)
		cur.assume(app("=", app("u_blen", src), slen))
	} else {
		s := g.sval(fr, c.Args[1])
		src = g.bytesOf(st, s)
		slen = app("slen", s)
	}
	n := g.c.fresh("copied", "Int")
	cur.assume(app("=", n, app("ite", app("<", app("slen", dst), slen), app("slen", dst), slen)))
	if g.cellsImmutable(types.Typ[types.Byte]) {
		g.safety(cur, "immutable", "cells", pos, or(app("=", n, "0"), app(">=", app("sbase", dst), g.c.declareConst("$nxt@init", "Int"))))
	}
	m := g.svGet(st, "$bytes", "(Array Int Bytes)")
	old := app("select", m, app("sbase", dst))
	nb := g.c.fresh("copybytes", "Bytes")
	off := app("soff", dst)
	end := app("+", off, n)
	cur.assume(app("=", app("u_blen", nb), app("u_blen", old)))
	cur.assume(app("=", app("bsub", nb, off, n), app("bsub", src, "0", n)))
	cur.assume(app("=", app("bsub", nb, "0", off), app("bsub", old, "0", off)))
	cur.assume(app("=", app("bsub", nb, end, app("-", app("u_blen", old), end)), app("bsub", old, end, app("-", app("u_blen", old), end))))
	g.svAssign(cur, st, "$bytes", "(Array Int Bytes)", app("store", m, app("sbase", dst), nb))
	return n
}

func sortedKeys(m map[string]bool) []string {
	var ks []string
	for k := range m {
		ks = append(ks, k)
	}
	sort.Strings(ks)
	return ks
}

func (g *gen) callOrdinal(fr *frame, key string, instr ssa.Instruction) int {
	ord := 0
	for _, b := range fr.fn.Blocks {
		for _, in := range b.Instrs {
			ci, ok := in.(ssa.CallInstruction)
			if !ok || in == instr {
				continue
			}
			k2 := ""
			if ci.Common().IsInvoke() {
				k2 = methodKey(ci.Common().Method)
			} else if sc := ci.Common().StaticCallee(); sc != nil {
				k2 = funcKey(sc)
			}
			if k2 == key && in.Pos() < instr.Pos() {
				ord++
			}
		}
	}
	return ord
}

func (g *gen) preCallAsserts(fr *frame, cur *node, st *State, key string, instr ssa.Instruction, pos token.Pos, cc *ssa.CallCommon) {
	for _, pc := range g.fs.PreCalls {
		if pc.Callee != key && pc.Callee != shortKey(key) {
			continue
		}
		if g.callOrdinal(fr, key, instr) != pc.K {
			continue
		}
		e := g.topEnv(st, &State{m: map[string]string{}}, nil)
		for k, v := range g.localEnvAt(fr, instr.Block(), instrIndexOf(instr.Block(), instr), st) {
			if _, bound := e.vars[k]; !bound {
				e.vars[k] = v
			}
		}
		// $arg0, $arg1, ...: the arguments of the call (without the receiver), $recv: its receiver
		if cc != nil {
			for i, a := range cc.Args {
				name := fmt.Sprintf("$arg%d", i)
				if cc.Signature().Recv() != nil && !cc.IsInvoke() {
					if i == 0 {
						name = "$recv"
					} else {
						name = fmt.Sprintf("$arg%d", i-1)
					}
				}
				e.vars[name] = binding{g.val(fr, a), xtOf(a.Type())}
			}
			if cc.IsInvoke() {
				e.vars["$recv"] = binding{g.val(fr, cc.Value), xtOf(cc.Value.Type())}
			}
		}
		t, err := e.trAssert(pc.C.E)
		if err != nil {
			g.errorf("%s: precall %s [%s]: %v", g.name, pc.Callee, pc.C.Label, err)
			continue
		}
		g.addObl(cur, "precall", "precall:"+shortKey(key)+":"+pc.C.Label, pc.C.Src, g.pos(pos), t, false)
	}
}

// callSiteOverride: "callsite callee#k: vfunc(args)" in the caller's contract.
func (g *gen) callSiteOverride(fr *frame, st *State, key string, instr ssa.Instruction) (*FuncSpec, []Val, *types.Signature, bool) {
	if len(g.fs.CallSites) == 0 || instr == nil {
		return nil, nil, nil, false
	}
	for _, cs := range g.fs.CallSites {
		if cs.Callee != key && cs.Callee != shortKey(key) {
			continue
		}
		// ordinal of this call among the calls of the same callee, in source order
		ord := 0
		for _, b := range fr.fn.Blocks {
			for _, in := range b.Instrs {
				ci, ok := in.(ssa.CallInstruction)
				if !ok || in == instr {
					continue
				}
				k2 := ""
				if ci.Common().IsInvoke() {
					k2 = methodKey(ci.Common().Method)
				} else if sc := ci.Common().StaticCallee(); sc != nil {
					k2 = funcKey(sc)
				}
				if k2 == key && in.Pos() < instr.Pos() {
					ord++
				}
			}
		}
		if ord != cs.K {
			continue
		}
		vfs := g.P.spec.Funcs[g.fs.PkgPath+"."+cs.Fn]
		if vfs == nil || !vfs.Virtual {
			g.errorf("%s: callsite %s: no virtual contract %s", g.name, cs.Src, cs.Fn)
			return nil, nil, nil, false
		}
		e := g.topEnv(st, &State{m: map[string]string{}}, nil)
		for k, v := range g.localEnvAt(fr, instr.Block(), instrIndexOf(instr.Block(), instr), st) {
			if _, bound := e.vars[k]; !bound {
				e.vars[k] = v
			}
		}
		var args []Val
		var params []*types.Var
		for i, a := range cs.Args {
			v, xt, err := e.tr(a)
			if err != nil {
				g.errorf("%s: callsite %s: %v", g.name, cs.Src, err)
				return nil, nil, nil, false
			}
			args = append(args, v)
			pt := xt.T
			if i < len(vfs.Params) {
				if pxt, err := g.resolveType(vfs.Params[i].Type, vfs.PkgPath, vfs.Imports); err == nil && pxt.T != nil {
					pt = pxt.T
				}
			}
			params = append(params, types.NewVar(0, nil, fmt.Sprintf("a%d", i), pt))
		}
		var results []*types.Var
		for i, r := range vfs.Results {
			rxt, err := g.resolveType(r.Type, vfs.PkgPath, vfs.Imports)
			if err != nil || rxt.T == nil {
				g.errorf("%s: callsite %s: result type: %v", g.name, cs.Src, err)
				return nil, nil, nil, false
			}
			results = append(results, types.NewVar(0, nil, fmt.Sprintf("r%d", i), rxt.T))
		}
		sig := types.NewSignatureType(nil, nil, nil, types.NewTuple(params...), types.NewTuple(results...), false)
		return vfs, args, sig, true
	}
	return nil, nil, nil, false
}

func (g *gen) cellsImmutable(el types.Type) bool {
	for _, ic := range g.P.spec.ImmutableCells {
		if name, _, ok := g.cellsVar(ic.Loc, ic.PkgPath, ic.Imports); ok && name == cellMapName(el) {
			return true
		}
	}
	return false
}

// execMapRange: m.Range(closure) as a loop over a ghost key sequence with the closure body
// executed in place. Needs "rangeloop k: invariant ..." clauses; in them $ri is the number of
// keys already visited, $rn the number of keys, $rk[j] the j-th key, $ridx[k] the position of
// key k, $dom0/$vals0 the map's contents when Range was called.
// Assumption (recorded): no other goroutine modifies the map while Range runs.
func (g *gen) execMapRange(fr *frame, cur *node, st *State, m string, mc *ssa.MakeClosure, pos token.Pos, instr ssa.Instruction) *node {
	ord := g.callOrdinal(fr, "sync.Map.Range", instr)
	ls := g.fs.RangeLoops[ord]
	if ls == nil {
		g.errorf("%s: sync.Map.Range call %d needs a rangeloop invariant", g.name, ord)
		return cur
	}
	g.used["assume:sync.Map.Range visits each key present at the call exactly once (no concurrent modification)"] = true
	g.safety(cur, "nil", "map", pos, not(app("=", m, "null")))
	domName, domSort := "G.sync.Map.dom", "(Array Ref (Array Iface Bool))"
	valName, valSort := "G.sync.Map.vals", "(Array Ref (Array Iface Iface))"
	dom0 := g.c.fresh("rdom0", "(Array Iface Bool)")
	vals0 := g.c.fresh("rvals0", "(Array Iface Iface)")
	cur.assume(app("=", dom0, app("select", g.svGet(st, domName, domSort), m)))
	cur.assume(app("=", vals0, app("select", g.svGet(st, valName, valSort), m)))
	rn := g.c.fresh("rn", "Int")
	rk := g.c.fresh("rk", "(Array Int Iface)")
	ridx := g.c.fresh("ridx", "(Array Iface Int)")
	cur.assume(app(">=", rn, "0"))
	cur.assume(fmt.Sprintf("(forall ((i Int)) (! (=> (and (<= 0 i) (< i %s)) (and (select %s (select %s i)) (= (select %s (select %s i)) i))) :pattern ((select %s i))))", rn, dom0, rk, ridx, rk, rk))
	cur.assume(fmt.Sprintf("(forall ((k Iface)) (! (=> (select %s k) (and (<= 0 (select %s k)) (< (select %s k) %s) (= (select %s (select %s k)) k))) :pattern ((select %s k))))", dom0, ridx, ridx, rn, rk, ridx, dom0))
	bindEnv := func(e *env, ri string) {
		for k, v := range g.localEnvAt(fr, instr.Block(), instrIndexOf(instr.Block(), instr), e.st) {
			if _, bound := e.vars[k]; !bound {
				e.vars[k] = v
			}
		}
		ifc := XT{S: "Iface", T: types.NewInterfaceType(nil, nil)}
		e.vars["$ri"] = binding{ri, xtInt}
		e.vars["$rn"] = binding{rn, xtInt}
		e.vars["$rk"] = binding{rk, XT{S: "(Array Int Iface)", K: &xtInt, E: &ifc}}
		e.vars["$ridx"] = binding{ridx, XT{S: "(Array Iface Int)", K: &ifc, E: &xtInt}}
		e.vars["$dom0"] = binding{dom0, XT{S: "(Array Iface Bool)", K: &ifc, E: &xtBool}}
		e.vars["$vals0"] = binding{vals0, XT{S: "(Array Iface Iface)", K: &ifc, E: &ifc}}
	}
	assertInv := func(n *node, s *State, ri, which string, conds []string) {
		e := g.topEnv(s, &State{m: map[string]string{}}, nil)
		bindEnv(e, ri)
		for _, c := range ls.Invs {
			t, err := e.trAssert(c.E)
			if err != nil {
				g.errorf("%s: rangeloop %d invariant [%s]: %v", g.name, ord, c.Label, err)
				continue
			}
			g.addObl(n, "inv-"+which, fmt.Sprintf("rangeinv:%d:%s:%s", ord, which, c.Label), c.Src, c.Where, implies(and(conds...), t), false)
		}
	}
	assertInv(cur, st, "0", "entry", nil)
	// header
	loopID := fmt.Sprintf("%s#range%d", fr.fn.Name(), ord)
	hn := g.newNode(loopID)
	cur.succs = append(cur.succs, &edge{hn, nil})
	before := st.clone()
	if mods, known := g.loopMods[loopID]; known {
		for _, name := range sortedKeys(mods) {
			g.havocLoopVar(hn, st, before, name)
		}
	} else {
		for name := range g.allVars {
			g.havocLoopVar(hn, st, before, name)
		}
		for name := range before.m {
			g.havocLoopVar(hn, st, before, name)
		}
	}
	ri := g.c.fresh("ri", "Int")
	hn.assume(and(app("<=", "0", ri), app("<=", ri, rn)))
	var excl map[string][]string
	var whole map[string]bool
	if ls.HasModifies {
		e := g.topEnv(before, &State{m: map[string]string{}}, nil)
		bindEnv(e, ri)
		excl, whole = g.loopModifiesExcl(e, ls, 1000+ord)
		g.assumeLoopFrame(hn, st, before, excl, whole)
	}
	{
		e := g.topEnv(st, &State{m: map[string]string{}}, nil)
		bindEnv(e, ri)
		for _, c := range ls.Invs {
			if t, err := e.trAssume(c.E); err == nil {
				hn.assume(t)
			}
		}
	}
	hst := st.clone()
	// exit without break
	var exits []predRec
	exits = append(exits, predRec{nil, hn, st.clone(), []string{app(">=", ri, rn)}})
	// body
	bn := g.newNode(loopID + ".body")
	hn.succs = append(hn.succs, &edge{bn, []string{app("<", ri, rn)}})
	bst := st.clone()
	key := app("select", rk, ri)
	var binds []Val
	for _, b := range mc.Bindings {
		binds = append(binds, g.val(fr, b))
	}
	res, en := g.execInline(fr, bn, bst, mc.Fn.(*ssa.Function), binds, []Val{key, app("select", vals0, key)}, pos)
	r, _ := res.(string)
	if r == "" {
		r = "true"
	}
	// continue: invariant preserved at ri+1
	mods := g.loopModsN[loopID]
	if mods == nil {
		mods = map[string]bool{}
		g.loopModsN[loopID] = mods
	}
	for name, srt := range g.allVars {
		if g.svGet(bst, name, srt) != g.svGet(hst, name, srt) {
			mods[name] = true
		}
	}
	assertInv(en, bst, app("+", ri, "1"), "preserved", []string{r})
	if ls.HasModifies {
		g.checkLoopFrame(en, bst, hst, excl, whole, fmt.Sprintf("rangeframe:%d", ord), g.pos(pos), nil)
	}
	// break
	exits = append(exits, predRec{nil, en, bst, []string{not(r)}})
	jn, jst := g.joinPreds(exits, loopID+".exit")
	for k := range st.m {
		delete(st.m, k)
	}
	for k, v := range jst.m {
		st.m[k] = v
	}
	return jn
}
