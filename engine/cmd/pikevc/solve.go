package main

// Solver portfolio: z3 4.8.12, z3-new 5.1.0, cvc5 1.0.x raced per obligation.

import (
	"bytes"
	"context"
	"fmt"
	"os"
	"os/exec"
	"path/filepath"
	"strings"
	"sync"
	"time"
)

type solverAnswer struct {
	Solver string  `json:"solver"`
	Result string  `json:"result"` // unsat | sat | unknown | timeout | error
	Secs   float64 `json:"time_s"`
	Output string  `json:"output,omitempty"`
	Retried bool   `json:"retried_with_larger_budget,omitempty"`
}

type solverSpec struct {
	name string
	args func(file string, timeout int, strMode bool) []string
}

var solvers = []solverSpec{
	{"z3-new-5.1.0", func(f string, t int, s bool) []string { return []string{"z3-new", fmt.Sprintf("-T:%d", t), f} }},
	{"z3-4.8.12", func(f string, t int, s bool) []string { return []string{"z3", fmt.Sprintf("-T:%d", t), f} }},
	{"cvc5-1.0", func(f string, t int, s bool) []string {
		a := []string{"cvc5", "--lang=smt2", fmt.Sprintf("--tlimit=%d", t*1000), "--produce-models"}
		if s {
			a = append(a, "--strings-exp")
		}
		return append(a, f)
	}},
}

func runOne(ctx context.Context, sp solverSpec, file string, timeout int, strMode bool) solverAnswer {
	args := sp.args(file, timeout, strMode)
	t0 := time.Now()
	cctx, cancel := context.WithTimeout(ctx, time.Duration(timeout+2)*time.Second)
	defer cancel()
	cmd := exec.CommandContext(cctx, args[0], args[1:]...)
	var out bytes.Buffer
	cmd.Stdout = &out
	cmd.Stderr = &out
	_ = cmd.Run()
	secs := time.Since(t0).Seconds()
	text := out.String()
	first := ""
	for _, ln := range strings.Split(text, "\n") {
		t := strings.TrimSpace(ln)
		if t == "" || strings.HasPrefix(t, "WARNING") || strings.HasPrefix(t, "(warning") {
			continue
		}
		first = t
		break
	}
	res := "error"
	if strings.HasPrefix(first, "(error") {
		first = "error"
	}
	switch {
	case first == "unsat":
		res = "unsat"
	case first == "sat":
		res = "sat"
	case first == "unknown":
		res = "unknown"
	case first == "timeout" || strings.Contains(first, "timeout") || cctx.Err() != nil:
		res = "timeout"
	case strings.Contains(text, "interrupted by timeout") || strings.Contains(text, "cvc5 interrupted"):
		res = "timeout"
	}
	if len(text) > 20000 {
		text = text[:20000]
	}
	return solverAnswer{Solver: sp.name, Result: res, Secs: secs, Output: text}
}

// race runs all solvers on the query; the first definite answer (unsat/sat) wins.
// In crossCheck mode every solver runs to completion and all answers are returned.
func race(dir, name, query string, timeout int, strMode, crossCheck bool) (solverAnswer, []solverAnswer) {
	file := filepath.Join(dir, sanitize(name)+".smt2")
	_ = os.WriteFile(file, []byte(query), 0o644)
	ctx, cancel := context.WithCancel(context.Background())
	defer cancel()
	ch := make(chan solverAnswer, len(solvers))
	for _, sp := range solvers {
		go func(sp solverSpec) { ch <- runOne(ctx, sp, file, timeout, strMode) }(sp)
	}
	var all []solverAnswer
	var win *solverAnswer
	for range solvers {
		a := <-ch
		all = append(all, a)
		if (a.Result == "unsat" || a.Result == "sat") && win == nil {
			w := a
			win = &w
			if !crossCheck {
				cancel()
				break
			}
		}
	}
	if win != nil {
		return *win, all
	}
	best := solverAnswer{Solver: "none", Result: "unknown"}
	var outs []string
	for _, a := range all {
		best.Secs += a.Secs
		outs = append(outs, a.Solver+": "+a.Result+" "+truncate(strings.TrimSpace(a.Output), 300))
		if a.Result == "timeout" {
			best.Result = "timeout"
		}
	}
	best.Output = strings.Join(outs, "\n")
	return best, all
}

type oblResult struct {
	Obl     *obligation
	Answer  solverAnswer
	All     []solverAnswer
	Query   string
	StrMode bool
}

func solveAll(g *gen, dir string, timeout int, crossCheck bool, only func(*obligation) bool, par int) []oblResult {
	return solveAllNA(g, dir, timeout, crossCheck, only, par, nil)
}

func solveAllNA(g *gen, dir string, timeout int, crossCheck bool, only func(*obligation) bool, par int, noAssume map[int]bool) []oblResult {
	base := g.emitFull(g.c.strMode, false, noAssume)
	baseStripped := ""
	var todo []*obligation
	for _, o := range g.obls {
		if only == nil || only(o) {
			todo = append(todo, o)
		}
	}
	for _, o := range todo {
		if o.Kind == "smoke" {
			baseStripped = g.emitFull(g.c.strMode, true, noAssume)
			break
		}
	}
	res := make([]oblResult, len(todo))
	var wg sync.WaitGroup
	sem := make(chan struct{}, par)
	for i, o := range todo {
		wg.Add(1)
		sem <- struct{}{}
		go func(i int, o *obligation) {
			defer wg.Done()
			defer func() { <-sem }()
			b := base
			to := timeout
			if o.Kind == "smoke" {
				b = baseStripped
				to = 3
			}
			if o.Kind == "canary" {
				to = 3
			}
			_ = b
			q := g.emitTarget(g.c.strMode, o.Kind == "smoke", noAssume, o.idx)
			a, all := race(dir, g.name+"__"+o.Name, q, to, g.c.strMode, crossCheck && o.Kind != "smoke" && o.Kind != "canary")
			res[i] = oblResult{Obl: o, Answer: a, All: all, Query: q, StrMode: g.c.strMode}
		}(i, o)
	}
	wg.Wait()
	return res
}

