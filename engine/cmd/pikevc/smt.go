package main

// SMT context shared by one function's VC: sorts, declarations, state variables.

import (
	"fmt"
	"go/types"
	"sort"
	"strings"
)

const preludeCommon = `
(declare-datatypes ((Ref 0)) (((null) (obj (oid Int)) (elem (ebase Int) (eidx Int)) (fld (fbase Ref) (fidx Int)) (glob (gid Int)))))
(declare-datatypes ((Slice 0)) (((mkslice (sbase Int) (soff Int) (slen Int) (scap Int)))))
(declare-sort Iface 0)
PRELUDE_BYTES
(declare-const inil Iface)
(declare-fun itag (Iface) Int)
(assert (= (itag inil) 0))
(define-fun nilslice () Slice (mkslice 0 0 0 0))
(define-fun rootid ((r Ref)) Int
  (ite ((_ is obj) r) (oid r)
  (ite ((_ is elem) r) (ebase r)
  (ite ((_ is fld) r) (ite ((_ is obj) (fbase r)) (oid (fbase r)) (ite ((_ is elem) (fbase r)) (ebase (fbase r)) (- 1)))
  (- 1)))))
(define-fun rootidx ((r Ref)) Int
  (ite ((_ is elem) r) (eidx r)
  (ite ((_ is fld) r) (ite ((_ is elem) (fbase r)) (eidx (fbase r)) (- 1))
  (- 1))))
(define-fun wrap64 ((x Int)) Int (- (mod (+ x 9223372036854775808) 18446744073709551616) 9223372036854775808))
(define-fun wrap32 ((x Int)) Int (- (mod (+ x 2147483648) 4294967296) 2147483648))
(define-fun wrap16 ((x Int)) Int (- (mod (+ x 32768) 65536) 32768))
(define-fun wrap8 ((x Int)) Int (- (mod (+ x 128) 256) 128))
(define-fun uwrap64 ((x Int)) Int (mod x 18446744073709551616))
(define-fun uwrap32 ((x Int)) Int (mod x 4294967296))
(define-fun uwrap16 ((x Int)) Int (mod x 65536))
(define-fun uwrap8 ((x Int)) Int (mod x 256))
(define-fun in64 ((x Int)) Bool (and (<= (- 9223372036854775808) x) (<= x 9223372036854775807)))
(define-fun in32 ((x Int)) Bool (and (<= (- 2147483648) x) (<= x 2147483647)))
(define-fun in16 ((x Int)) Bool (and (<= (- 32768) x) (<= x 32767)))
(define-fun in8 ((x Int)) Bool (and (<= (- 128) x) (<= x 127)))
(define-fun inu64 ((x Int)) Bool (and (<= 0 x) (<= x 18446744073709551615)))
(define-fun inu32 ((x Int)) Bool (and (<= 0 x) (<= x 4294967295)))
(define-fun inu16 ((x Int)) Bool (and (<= 0 x) (<= x 65535)))
(define-fun inu8 ((x Int)) Bool (and (<= 0 x) (<= x 255)))
(define-fun godiv ((a Int) (b Int)) Int (ite (>= a 0) (ite (> b 0) (div a b) (- (div a (- b)))) (ite (> b 0) (- (div (- a) b)) (div (- a) (- b)))))
(define-fun gomod ((a Int) (b Int)) Int (- a (* b (godiv a b))))
(declare-fun eref (Slice Int) Ref)
(assert (forall ((s Slice) (i Int)) (! (= (eref s i) (elem (sbase s) (+ (soff s) i))) :pattern ((eref s i)))))
(define-fun validslice ((s Slice)) Bool (and (<= (scap s) 281474976710656) (>= (slen s) 0) (>= (soff s) 0) (>= (scap s) (slen s)) (>= (sbase s) 0) (=> (= (sbase s) 0) (= s nilslice))))
`

const preludeBytesAbstract = `
(declare-sort Bytes 0)
(declare-fun u_blen (Bytes) Int)
(declare-fun bsub (Bytes Int Int) Bytes)
(declare-const u_bempty Bytes)
(assert (forall ((b Bytes) (o Int) (l Int)) (! (=> (>= l 0) (= (u_blen (bsub b o l)) l)) :pattern ((bsub b o l)))))
(assert (forall ((b Bytes) (l Int)) (! (=> (= l (u_blen b)) (= (bsub b 0 l) b)) :pattern ((bsub b 0 l)))))
(assert (forall ((b Bytes) (o Int)) (! (= (bsub b o 0) u_bempty) :pattern ((bsub b o 0)))))
`

// in string-theory mode byte strings are SMT strings as well
const preludeBytesTheory = `
(define-sort Bytes () String)
(define-fun u_blen ((b Bytes)) Int (str.len b))
(define-fun bsub ((b Bytes) (o Int) (l Int)) Bytes (str.substr b o l))
(define-fun b2s ((b Bytes)) String b)
(define-fun s2b ((s String)) Bytes s)
(define-fun u_bempty () Bytes "")
`

const preludeStrAbstract = `
(declare-sort Str 0)
(declare-fun strlen (Str) Int)
(declare-const str_empty Str)
(assert (= (strlen str_empty) 0))
(assert (forall ((s Str)) (! (>= (strlen s) 0) :pattern ((strlen s)))))
(assert (forall ((s Str)) (! (=> (= (strlen s) 0) (= s str_empty)) :pattern ((strlen s)))))
`

const preludeStrTheory = `
(define-sort Str () String)
(define-fun strlen ((s Str)) Int (str.len s))
(define-fun str_empty () Str "")
`

// State maps state-variable names to their current SMT term (a constant name).
type State struct {
	m map[string]string
}

func (s *State) clone() *State {
	n := &State{m: make(map[string]string, len(s.m))}
	for k, v := range s.m {
		n.m[k] = v
	}
	return n
}

type smtCtx struct {
	decls    []string
	declared map[string]bool
	counter  int
	svSort   map[string]string // state var -> sort
	strLits  map[string]string // literal -> const name
	strMode  bool
	typeTags map[string]int
	boxFns   map[string]bool
	sorts    map[string]bool // declared uninterpreted sorts
	globals  map[string]int
	ufuncs   map[string]string // declared uninterpreted function -> signature
}

func newSmtCtx(strMode bool) *smtCtx {
	c := newSmtCtx0(strMode)
	if strMode {
		c.ufuncs["b2s"] = "(Bytes) Str"
		c.ufuncs["s2b"] = "(Str) Bytes"
	}
	return c
}

func newSmtCtx0(strMode bool) *smtCtx {
	return &smtCtx{declared: map[string]bool{"u_bempty": true}, svSort: map[string]string{}, strLits: map[string]string{},
		strMode: strMode, typeTags: map[string]int{}, boxFns: map[string]bool{}, sorts: map[string]bool{"Bytes": true}, globals: map[string]int{},
		ufuncs: map[string]string{"u_blen": "(Bytes) Int", "bsub": "(Bytes Int Int) Bytes"}}

}

func sanitize(s string) string {
	var sb strings.Builder
	for _, c := range s {
		if (c >= 'a' && c <= 'z') || (c >= 'A' && c <= 'Z') || (c >= '0' && c <= '9') || c == '_' || c == '.' || c == '$' || c == '@' {
			sb.WriteRune(c)
		} else {
			sb.WriteByte('_')
		}
	}
	return sb.String()
}

func (c *smtCtx) fresh(prefix, sort string) string {
	c.counter++
	name := fmt.Sprintf("%s!%d", sanitize(prefix), c.counter)
	c.decls = append(c.decls, fmt.Sprintf("(declare-const %s %s)", name, sort))
	return name
}

func (c *smtCtx) declareConst(name, sort string) string {
	if !c.declared[name] {
		c.declared[name] = true
		c.decls = append(c.decls, fmt.Sprintf("(declare-const %s %s)", name, sort))
	}
	return name
}

func (c *smtCtx) declareSort(name string) {
	if !c.sorts[name] {
		c.sorts[name] = true
		c.decls = append(c.decls, fmt.Sprintf("(declare-sort %s 0)", name))
	}
}

func (c *smtCtx) declareFun(name string, args []string, res string) {
	sig := "(" + strings.Join(args, " ") + ") " + res
	if old, ok := c.ufuncs[name]; ok {
		if old != sig {
			panic(fmt.Sprintf("uninterpreted function %s redeclared with different signature: %s vs %s", name, old, sig))
		}
		return
	}
	c.ufuncs[name] = sig
	c.decls = append(c.decls, fmt.Sprintf("(declare-fun %s %s)", name, sig))
}

func (c *smtCtx) strLit(s string) string {
	if c.strMode {
		// SMT-LIB string literal: escape quotes by doubling, non-printable as \u{..}
		var sb strings.Builder
		sb.WriteByte('"')
		for _, r := range []byte(s) {
			if r == '"' {
				sb.WriteString(`""`)
			} else if r < 32 || r > 126 || r == '\\' {
				sb.WriteString(fmt.Sprintf("\\u{%x}", r))
			} else {
				sb.WriteByte(r)
			}
		}
		sb.WriteByte('"')
		return sb.String()
	}
	if s == "" {
		return "str_empty"
	}
	if n, ok := c.strLits[s]; ok {
		return n
	}
	name := fmt.Sprintf("lit%d_%s", len(c.strLits), sanitize(truncate(s, 16)))
	c.strLits[s] = name
	c.decls = append(c.decls, fmt.Sprintf("(declare-const %s Str)", name))
	c.decls = append(c.decls, fmt.Sprintf("(assert (= (strlen %s) %d))", name, len(s)))
	return name
}

func truncate(s string, n int) string {
	if len(s) > n {
		return s[:n]
	}
	return s
}

// literalAxioms: pairwise distinctness of all literals used.
func (c *smtCtx) literalAxioms() string {
	if c.strMode || len(c.strLits) == 0 {
		return ""
	}
	var names []string
	for _, n := range c.strLits {
		names = append(names, n)
	}
	sort.Strings(names)
	names = append(names, "str_empty")
	return "(assert (distinct " + strings.Join(names, " ") + "))\n"
}

func (c *smtCtx) typeTag(t types.Type) int {
	k := types.TypeString(t, nil)
	if id, ok := c.typeTags[k]; ok {
		return id
	}
	id := len(c.typeTags) + 1
	c.typeTags[k] = id
	return id
}

// box/unbox functions for interface payloads of a given sort
func (c *smtCtx) boxFn(sort string) (mk, un string) {
	s := sanitize(sort)
	mk, un = "mk_"+s, "as_"+s
	if !c.boxFns[s] {
		c.boxFns[s] = true
		c.decls = append(c.decls, fmt.Sprintf("(declare-fun %s (Int %s) Iface)", mk, sort))
		c.decls = append(c.decls, fmt.Sprintf("(declare-fun %s (Iface) %s)", un, sort))
		c.decls = append(c.decls, fmt.Sprintf("(assert (forall ((t Int) (v %s)) (! (and (= (itag (%s t v)) t) (= (%s (%s t v)) v) (not (= (%s t v) inil))) :pattern ((%s t v)))))", sort, mk, un, mk, mk, mk))
		c.decls = append(c.decls, fmt.Sprintf("(assert (forall ((i Iface)) (! (=> (not (= i inil)) (= (%s (itag i) (%s i)) i)) :pattern ((%s i)))))", mk, un, un))
	}
	return
}

func (c *smtCtx) globalID(name string) int {
	if id, ok := c.globals[name]; ok {
		return id
	}
	id := len(c.globals) + 1
	c.globals[name] = id
	return id
}

// ---- sorts of Go types ----

func isStruct(t types.Type) (*types.Struct, bool) {
	s, ok := t.Underlying().(*types.Struct)
	return s, ok
}

func sortOf(t types.Type) string {
	switch u := t.Underlying().(type) {
	case *types.Basic:
		info := u.Info()
		switch {
		case info&types.IsBoolean != 0:
			return "Bool"
		case info&types.IsInteger != 0:
			return "Int"
		case info&types.IsString != 0:
			return "Str"
		case info&types.IsFloat != 0:
			return "Real"
		case u.Kind() == types.UnsafePointer:
			return "Ref"
		case u.Kind() == types.UntypedNil:
			return "Ref"
		}
		return "Int"
	case *types.Pointer, *types.Chan, *types.Map, *types.Signature:
		return "Ref"
	case *types.Slice:
		return "Slice"
	case *types.Interface:
		return "Iface"
	case *types.Struct:
		return "STRUCT"
	case *types.Array:
		return "ARRAY"
	case *types.Tuple:
		return "TUPLE"
	}
	return "Int"
}

func intRange(t types.Type) (string, string) { // (inrange fn, wrap fn)
	b, ok := t.Underlying().(*types.Basic)
	if !ok {
		return "", ""
	}
	switch b.Kind() {
	case types.Int, types.Int64:
		return "in64", "wrap64"
	case types.Int32:
		return "in32", "wrap32"
	case types.Int16:
		return "in16", "wrap16"
	case types.Int8:
		return "in8", "wrap8"
	case types.Uint, types.Uint64, types.Uintptr:
		return "inu64", "uwrap64"
	case types.Uint32:
		return "inu32", "uwrap32"
	case types.Uint16:
		return "inu16", "uwrap16"
	case types.Uint8:
		return "inu8", "uwrap8"
	case types.UntypedInt, types.UntypedRune:
		return "", ""
	}
	return "", ""
}

func typeKey(t types.Type) string {
	return sanitize(types.TypeString(t, func(p *types.Package) string { return p.Name() }))
}

func zeroOfSort(sort string) string {
	switch sort {
	case "Int":
		return "0"
	case "Real":
		return "0.0"
	case "Bool":
		return "false"
	case "Str":
		return "str_empty"
	case "Ref":
		return "null"
	case "Slice":
		return "nilslice"
	case "Iface":
		return "inil"
	}
	return ""
}

func smtInt(v string) string {
	if strings.HasPrefix(v, "-") {
		return "(- " + v[1:] + ")"
	}
	return v
}

func app(f string, args ...string) string {
	return "(" + f + " " + strings.Join(args, " ") + ")"
}

func and(ts ...string) string {
	var xs []string
	for _, t := range ts {
		if t != "true" && t != "" {
			xs = append(xs, t)
		}
	}
	if len(xs) == 0 {
		return "true"
	}
	if len(xs) == 1 {
		return xs[0]
	}
	return "(and " + strings.Join(xs, " ") + ")"
}

func or(ts ...string) string {
	if len(ts) == 0 {
		return "false"
	}
	if len(ts) == 1 {
		return ts[0]
	}
	return "(or " + strings.Join(ts, " ") + ")"
}

func not(t string) string { return "(not " + t + ")" }

func implies(a, b string) string {
	if a == "true" {
		return b
	}
	return "(=> " + a + " " + b + ")"
}

func preludeFor(strMode bool) string {
	if strMode {
		return strings.Replace(preludeCommon, "PRELUDE_BYTES", preludeStrTheory+preludeBytesTheory, 1)
	}
	return strings.Replace(preludeCommon, "PRELUDE_BYTES", preludeBytesAbstract, 1)
}
