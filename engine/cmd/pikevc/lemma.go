package main

import (
	"fmt"
	"golang.org/x/tools/go/ssa"
	"strings"
)

// proveLemma proves a named lemma from the axioms (and the lemmas declared before it).
func proveLemma(P *Program, name, dir string, timeout int, cross bool) (solverAnswer, string, error) {
	return proveLemmaRegion(P, name, dir, timeout, cross, "")
}

// proveLemmaRegion proves (region || lemma): the lemma outside the region of a recorded finding.
func proveLemmaRegion(P *Program, name, dir string, timeout int, cross bool, region string) (solverAnswer, string, error) {
	var target *Axiom
	var before []*Axiom
	for _, ax := range P.spec.Axioms {
		if ax.Lemma && ax.Name == name {
			target = ax
			break
		}
	}
	// facts available: every axiom, and the lemmas declared before the target
	seenTarget := false
	for _, ax := range P.spec.Axioms {
		if ax == target {
			seenTarget = true
			continue
		}
		if ax.Lemma && seenTarget {
			continue
		}
		if target != nil && len(target.Using) > 0 {
			listed := false
			for _, u := range target.Using {
				if u == ax.Name {
					listed = true
				}
			}
			if !listed {
				continue
			}
		}
		before = append(before, ax)
	}
	if target == nil {
		return solverAnswer{}, "", fmt.Errorf("lemma %s not found", name)
	}
	g := &gen{P: P, fs: &FuncSpec{}, c: newSmtCtx(target.Strings), name: "lemma", oblNames: map[string]int{}, allVars: map[string]string{},
		used: map[string]bool{}, snapNames: map[string]bool{}, localCell: map[string]string{}, fieldRefs: map[string]*fieldAccess{}, finalVals: map[*ssa.FreeVar]Val{}, pureCache: map[*SpecFunc]bool{}}
	if target.Hide != "" {
		g.hide = func(n string) bool {
			for _, r := range target.Reveal {
				if r == n {
					return false
				}
			}
			for _, pat := range strings.Split(target.Hide, "|") {
				if globMatch(pat, n) {
					return true
				}
			}
			return false
		}
	}
	st := &State{m: map[string]string{}}
	var facts []string
	for _, ax := range before {
		if ax.Strings && !target.Strings {
			continue
		}
		e := &env{g: g, vars: map[string]binding{}, st: st, old: st, pkgPath: ax.PkgPath, imports: ax.Imports}
		t, err := e.trBool(P.factOf(ax))
		if err != nil {
			if target.Strings {
				continue // abstract-string axioms may not translate in string-theory mode
			}
			return solverAnswer{}, "", fmt.Errorf("axiom %s: %v", ax.Name, err)
		}
		facts = append(facts, t)
	}
	e := &env{g: g, vars: map[string]binding{}, st: st, old: st, pkgPath: target.PkgPath, imports: target.Imports}
	goalExpr := target.E
	if q, ok := goalExpr.(*EQuant); ok && q.Forall {
		// named witnesses instead of a quantifier, so that a counterexample shows up in the model
		for _, qv := range q.Vars {
			xt, err := g.resolveType(qv.Type, target.PkgPath, target.Imports)
			if err != nil {
				return solverAnswer{}, "", err
			}
			name := g.c.declareConst("p.w_"+qv.Name+"!0", xt.S)
			e = e.with(qv.Name, binding{name, xt})
		}
		goalExpr = q.Body
	}
	goal, err := e.trBool(goalExpr)
	if err != nil {
		return solverAnswer{}, "", fmt.Errorf("lemma %s: %v", name, err)
	}
	if region != "" {
		re, err := parseExpr(region)
		if err != nil {
			return solverAnswer{}, "", fmt.Errorf("lemma %s: region: %v", name, err)
		}
		rt, err := e.trBool(re)
		if err != nil {
			return solverAnswer{}, "", fmt.Errorf("lemma %s: region: %v", name, err)
		}
		goal = or(rt, goal)
	}
	var sb strings.Builder
	sb.WriteString("(set-option :produce-models true)\n(set-logic ALL)\n")
	sb.WriteString(preludeFor(target.Strings))
	if target.Strings {
		sb.WriteString("(define-fun strcat ((a Str) (b Str)) Str (str.++ a b))\n")
	} else {
		sb.WriteString(preludeStrAbstract)
		sb.WriteString("(declare-fun strcat (Str Str) Str)\n")
	}
	for _, d := range g.c.decls {
		sb.WriteString(d + "\n")
	}
	sb.WriteString(g.c.literalAxioms())
	for _, a := range g.globalAx {
		sb.WriteString("(assert " + a + ")\n")
	}
	for _, f := range facts {
		sb.WriteString("(assert " + f + ")\n")
	}
	sb.WriteString("(assert (not " + goal + "))\n(check-sat)\n(get-model)\n")
	q := sb.String()
	a, _ := race(dir, "lemma__"+name, q, timeout, target.Strings, cross)
	return a, q, nil
}
