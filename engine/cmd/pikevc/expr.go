package main

// Contract expression language: lexer, AST and parser.
// Go expression syntax plus ==>, <==>, forall/exists, old(e), at(label, e), c ? a : b,
// and $ghost state variables.

import (
	"fmt"
	"strings"
	"unicode"
)

type tokKind int

const (
	tEOF tokKind = iota
	tIdent
	tInt
	tStr
	tOp
)

type lexTok struct {
	k   tokKind
	s   string
	pos int
}

func lex(src string) ([]lexTok, error) {
	var out []lexTok
	i := 0
	n := len(src)
	for i < n {
		c := src[i]
		switch {
		case c == ' ' || c == '\t' || c == '\n' || c == '\r':
			i++
		case unicode.IsLetter(rune(c)) || c == '_' || c == '$':
			j := i + 1
			for j < n && (unicode.IsLetter(rune(src[j])) || unicode.IsDigit(rune(src[j])) || src[j] == '_' || src[j] == '$' || src[j] == '#') {
				j++
			}
			out = append(out, lexTok{tIdent, src[i:j], i})
			i = j
		case unicode.IsDigit(rune(c)):
			j := i + 1
			for j < n && (unicode.IsDigit(rune(src[j])) || src[j] == 'x' || (src[j] >= 'a' && src[j] <= 'f') || (src[j] >= 'A' && src[j] <= 'F')) {
				j++
			}
			out = append(out, lexTok{tInt, src[i:j], i})
			i = j
		case c == '"':
			j := i + 1
			var sb strings.Builder
			for j < n && src[j] != '"' {
				if src[j] == '\\' && j+1 < n {
					j++
					switch src[j] {
					case 'n':
						sb.WriteByte('\n')
					case 't':
						sb.WriteByte('\t')
					default:
						sb.WriteByte(src[j])
					}
				} else {
					sb.WriteByte(src[j])
				}
				j++
			}
			if j >= n {
				return nil, fmt.Errorf("unterminated string at %d", i)
			}
			out = append(out, lexTok{tStr, sb.String(), i})
			i = j + 1
		default:
			ops := []string{"<==>", "==>", "::", ":=", "==", "!=", "<=", ">=", "&&", "||", "...",
				"+", "-", "*", "/", "%", "<", ">", "!", "(", ")", "[", "]", ",", ".", "?", ":", "{", "}", "&"}
			matched := false
			for _, op := range ops {
				if strings.HasPrefix(src[i:], op) {
					out = append(out, lexTok{tOp, op, i})
					i += len(op)
					matched = true
					break
				}
			}
			if !matched {
				return nil, fmt.Errorf("unexpected character %q at %d in %q", c, i, src)
			}
		}
	}
	out = append(out, lexTok{tEOF, "", n})
	return out, nil
}

// ---- AST ----

type Expr interface{ String() string }

type (
	EIdent struct{ Name string }
	EInt   struct{ V string }
	EStr   struct{ V string }
	EBool  struct{ V bool }
	ENil   struct{}
	EUn    struct {
		Op string
		X  Expr
	}
	EBin struct {
		Op   string
		L, R Expr
	}
	ECall struct {
		Fn   string // simple or qualified name (pkg.Name)
		Args []Expr
	}
	EIndex struct{ X, I Expr }
	ESel   struct {
		X   Expr
		Sel string
	}
	EIte   struct{ C, A, B Expr }
	EQuant struct {
		Forall   bool
		Vars     []QVar
		Body     Expr
		Patterns []Expr // optional triggers: forall x T {f(x), g(x)} :: body
		AltPatterns [][]Expr // further alternative triggers: {p1} {p2} :: body
	}
	EOld struct{ X Expr }
	EAt  struct {
		Label string
		X     Expr
	}
)

type QVar struct {
	Name string
	Type *TypeExpr
}

// TypeExpr is a tiny Go type syntax: ident | pkg.ident | *T | []T | map[K]V | set[K] | chan T
type TypeExpr struct {
	Kind string // name, ptr, slice, map, set, chan
	Name string // for name: possibly pkg.Name
	Elem *TypeExpr
	Key  *TypeExpr
}

func (t *TypeExpr) String() string {
	switch t.Kind {
	case "name":
		return t.Name
	case "ptr":
		return "*" + t.Elem.String()
	case "slice":
		return "[]" + t.Elem.String()
	case "map":
		return "map[" + t.Key.String() + "]" + t.Elem.String()
	case "set":
		return "set[" + t.Key.String() + "]"
	case "chan":
		return "chan " + t.Elem.String()
	}
	return "?"
}

func (e *EIdent) String() string { return e.Name }
func (e *EInt) String() string   { return e.V }
func (e *EStr) String() string   { return fmt.Sprintf("%q", e.V) }
func (e *EBool) String() string  { return fmt.Sprint(e.V) }
func (e *ENil) String() string   { return "nil" }
func (e *EUn) String() string    { return e.Op + e.X.String() }
func (e *EBin) String() string   { return "(" + e.L.String() + " " + e.Op + " " + e.R.String() + ")" }
func (e *ECall) String() string {
	var a []string
	for _, x := range e.Args {
		a = append(a, x.String())
	}
	return e.Fn + "(" + strings.Join(a, ", ") + ")"
}
func (e *EIndex) String() string { return e.X.String() + "[" + e.I.String() + "]" }
func (e *ESel) String() string   { return e.X.String() + "." + e.Sel }
func (e *EIte) String() string {
	return "(" + e.C.String() + " ? " + e.A.String() + " : " + e.B.String() + ")"
}
func (e *EQuant) String() string {
	q := "exists"
	if e.Forall {
		q = "forall"
	}
	var vs []string
	for _, v := range e.Vars {
		vs = append(vs, v.Name+" "+v.Type.String())
	}
	return "(" + q + " " + strings.Join(vs, ", ") + " :: " + e.Body.String() + ")"
}
func (e *EOld) String() string { return "old(" + e.X.String() + ")" }
func (e *EAt) String() string  { return "at(" + e.Label + ", " + e.X.String() + ")" }

// ---- parser ----

type parser struct {
	toks []lexTok
	p    int
	src  string
}

func (p *parser) peek() lexTok { return p.toks[p.p] }
func (p *parser) next() lexTok { t := p.toks[p.p]; p.p++; return t }
func (p *parser) isOp(s string) bool {
	t := p.peek()
	return t.k == tOp && t.s == s
}
func (p *parser) accept(s string) bool {
	if p.isOp(s) {
		p.p++
		return true
	}
	return false
}
func (p *parser) expect(s string) error {
	if !p.accept(s) {
		return fmt.Errorf("expected %q at %d in %q (got %q)", s, p.peek().pos, p.src, p.peek().s)
	}
	return nil
}

func parseExpr(src string) (Expr, error) {
	toks, err := lex(src)
	if err != nil {
		return nil, err
	}
	p := &parser{toks: toks, src: src}
	e, err := p.expr()
	if err != nil {
		return nil, err
	}
	if p.peek().k != tEOF {
		return nil, fmt.Errorf("trailing input at %d in %q", p.peek().pos, src)
	}
	return e, nil
}

func (p *parser) expr() (Expr, error) {
	t := p.peek()
	if t.k == tIdent && (t.s == "forall" || t.s == "exists") {
		p.next()
		var vars []QVar
		for {
			var names []string
			for {
				id := p.next()
				if id.k != tIdent {
					return nil, fmt.Errorf("expected bound variable at %d in %q", id.pos, p.src)
				}
				names = append(names, id.s)
				if !p.accept(",") {
					break
				}
			}
			ty, err := p.typeExpr()
			if err != nil {
				return nil, err
			}
			for _, n := range names {
				vars = append(vars, QVar{n, ty})
			}
			if !p.accept(",") {
				break
			}
		}
		var pats []Expr
		var more [][]Expr
		for p.accept("{") {
			if pats != nil {
				more = append(more, pats)
				pats = nil
			}
			for {
				pe, err := p.ternary()
				if err != nil {
					return nil, err
				}
				pats = append(pats, pe)
				if p.accept("}") {
					break
				}
				if err := p.expect(","); err != nil {
					return nil, err
				}
			}
		}
		if err := p.expect("::"); err != nil {
			return nil, err
		}
		body, err := p.expr()
		if err != nil {
			return nil, err
		}
		return &EQuant{Forall: t.s == "forall", Vars: vars, Body: body, Patterns: pats, AltPatterns: more}, nil
	}
	return p.iff()
}

func (p *parser) typeExpr() (*TypeExpr, error) {
	if p.accept("*") {
		e, err := p.typeExpr()
		if err != nil {
			return nil, err
		}
		return &TypeExpr{Kind: "ptr", Elem: e}, nil
	}
	if p.accept("[") {
		if err := p.expect("]"); err != nil {
			return nil, err
		}
		e, err := p.typeExpr()
		if err != nil {
			return nil, err
		}
		return &TypeExpr{Kind: "slice", Elem: e}, nil
	}
	t := p.next()
	if t.k != tIdent {
		return nil, fmt.Errorf("expected type at %d in %q", t.pos, p.src)
	}
	switch t.s {
	case "map":
		if err := p.expect("["); err != nil {
			return nil, err
		}
		k, err := p.typeExpr()
		if err != nil {
			return nil, err
		}
		if err := p.expect("]"); err != nil {
			return nil, err
		}
		v, err := p.typeExpr()
		if err != nil {
			return nil, err
		}
		return &TypeExpr{Kind: "map", Key: k, Elem: v}, nil
	case "set":
		if err := p.expect("["); err != nil {
			return nil, err
		}
		k, err := p.typeExpr()
		if err != nil {
			return nil, err
		}
		if err := p.expect("]"); err != nil {
			return nil, err
		}
		return &TypeExpr{Kind: "set", Key: k}, nil
	case "chan":
		e, err := p.typeExpr()
		if err != nil {
			return nil, err
		}
		return &TypeExpr{Kind: "chan", Elem: e}, nil
	case "struct", "interface":
		// struct{} / interface{}
		if err := p.expect("{"); err != nil {
			return nil, err
		}
		if err := p.expect("}"); err != nil {
			return nil, err
		}
		return &TypeExpr{Kind: "name", Name: t.s + "{}"}, nil
	case "func":
		// func(...) ... : skip balanced parens and optional result
		if err := p.skipParens(); err != nil {
			return nil, err
		}
		if p.isOp("(") {
			if err := p.skipParens(); err != nil {
				return nil, err
			}
		} else if pk := p.peek(); pk.k == tIdent || (pk.k == tOp && (pk.s == "*" || pk.s == "[")) {
			if _, err := p.typeExpr(); err != nil {
				return nil, err
			}
		}
		return &TypeExpr{Kind: "name", Name: "func"}, nil
	}
	name := t.s
	if p.accept(".") {
		t2 := p.next()
		if t2.k != tIdent {
			return nil, fmt.Errorf("expected type name after '.' at %d in %q", t2.pos, p.src)
		}
		name = name + "." + t2.s
	}
	return &TypeExpr{Kind: "name", Name: name}, nil
}

func (p *parser) skipParens() error {
	if err := p.expect("("); err != nil {
		return err
	}
	depth := 1
	for depth > 0 {
		t := p.next()
		if t.k == tEOF {
			return fmt.Errorf("unbalanced parens in %q", p.src)
		}
		if t.k == tOp && t.s == "(" {
			depth++
		}
		if t.k == tOp && t.s == ")" {
			depth--
		}
	}
	return nil
}

func (p *parser) iff() (Expr, error) {
	l, err := p.implies()
	if err != nil {
		return nil, err
	}
	for p.accept("<==>") {
		r, err := p.implies()
		if err != nil {
			return nil, err
		}
		l = &EBin{"<==>", l, r}
	}
	return l, nil
}

func (p *parser) implies() (Expr, error) {
	l, err := p.ternary()
	if err != nil {
		return nil, err
	}
	if p.accept("==>") {
		// right associative; the consequent may be a quantifier
		var r Expr
		if t := p.peek(); t.k == tIdent && (t.s == "forall" || t.s == "exists") {
			r, err = p.expr()
		} else {
			r, err = p.implies()
		}
		if err != nil {
			return nil, err
		}
		return &EBin{"==>", l, r}, nil
	}
	return l, nil
}

func (p *parser) ternary() (Expr, error) {
	c, err := p.or()
	if err != nil {
		return nil, err
	}
	if p.accept("?") {
		a, err := p.ternary()
		if err != nil {
			return nil, err
		}
		if err := p.expect(":"); err != nil {
			return nil, err
		}
		b, err := p.ternary()
		if err != nil {
			return nil, err
		}
		return &EIte{c, a, b}, nil
	}
	return c, nil
}

func (p *parser) or() (Expr, error) {
	l, err := p.and()
	if err != nil {
		return nil, err
	}
	for p.accept("||") {
		var r Expr
		if t := p.peek(); t.k == tIdent && (t.s == "forall" || t.s == "exists") {
			r, err = p.expr()
		} else {
			r, err = p.and()
		}
		if err != nil {
			return nil, err
		}
		l = &EBin{"||", l, r}
	}
	return l, nil
}

func (p *parser) and() (Expr, error) {
	l, err := p.cmp()
	if err != nil {
		return nil, err
	}
	for p.accept("&&") {
		var r Expr
		if t := p.peek(); t.k == tIdent && (t.s == "forall" || t.s == "exists") {
			r, err = p.expr()
		} else {
			r, err = p.cmp()
		}
		if err != nil {
			return nil, err
		}
		l = &EBin{"&&", l, r}
	}
	return l, nil
}

func (p *parser) cmp() (Expr, error) {
	l, err := p.add()
	if err != nil {
		return nil, err
	}
	for {
		t := p.peek()
		if t.k == tOp && (t.s == "==" || t.s == "!=" || t.s == "<" || t.s == "<=" || t.s == ">" || t.s == ">=") {
			p.next()
			r, err := p.add()
			if err != nil {
				return nil, err
			}
			l = &EBin{t.s, l, r}
			continue
		}
		return l, nil
	}
}

func (p *parser) add() (Expr, error) {
	l, err := p.mul()
	if err != nil {
		return nil, err
	}
	for {
		t := p.peek()
		if t.k == tOp && (t.s == "+" || t.s == "-") {
			p.next()
			r, err := p.mul()
			if err != nil {
				return nil, err
			}
			l = &EBin{t.s, l, r}
			continue
		}
		return l, nil
	}
}

func (p *parser) mul() (Expr, error) {
	l, err := p.unary()
	if err != nil {
		return nil, err
	}
	for {
		t := p.peek()
		if t.k == tOp && (t.s == "*" || t.s == "/" || t.s == "%") {
			p.next()
			r, err := p.unary()
			if err != nil {
				return nil, err
			}
			l = &EBin{t.s, l, r}
			continue
		}
		return l, nil
	}
}

func (p *parser) unary() (Expr, error) {
	if p.accept("!") {
		x, err := p.unary()
		if err != nil {
			return nil, err
		}
		return &EUn{"!", x}, nil
	}
	if p.accept("-") {
		x, err := p.unary()
		if err != nil {
			return nil, err
		}
		return &EUn{"-", x}, nil
	}
	return p.postfix()
}

func (p *parser) postfix() (Expr, error) {
	x, err := p.primary()
	if err != nil {
		return nil, err
	}
	for {
		switch {
		case p.accept("."):
			t := p.next()
			if t.k != tIdent {
				return nil, fmt.Errorf("expected selector at %d in %q", t.pos, p.src)
			}
			// qualified call pkg.Fn(...)
			if id, ok := x.(*EIdent); ok && p.isOp("(") && isLowerIdent(id.Name) && !strings.HasPrefix(id.Name, "$") {
				// could be method-like spec call "pkg.F(args)"; treated as qualified function name
				p.next()
				args, err := p.args()
				if err != nil {
					return nil, err
				}
				x = &ECall{Fn: id.Name + "." + t.s, Args: args}
				continue
			}
			x = &ESel{x, t.s}
		case p.accept("["):
			i, err := p.expr()
			if err != nil {
				return nil, err
			}
			if err := p.expect("]"); err != nil {
				return nil, err
			}
			x = &EIndex{x, i}
		default:
			return x, nil
		}
	}
}

func isLowerIdent(s string) bool { return s != "" && unicode.IsLower(rune(s[0])) }

func (p *parser) args() ([]Expr, error) {
	var args []Expr
	if p.accept(")") {
		return args, nil
	}
	for {
		a, err := p.expr()
		if err != nil {
			return nil, err
		}
		args = append(args, a)
		if p.accept(")") {
			return args, nil
		}
		if err := p.expect(","); err != nil {
			return nil, err
		}
	}
}

func (p *parser) primary() (Expr, error) {
	if pk := p.peek(); pk.k == tIdent && (pk.s == "forall" || pk.s == "exists") {
		// a quantifier in operand position extends as far to the right as possible
		return p.expr()
	}
	t := p.next()
	switch t.k {
	case tInt:
		return &EInt{t.s}, nil
	case tStr:
		return &EStr{t.s}, nil
	case tIdent:
		switch t.s {
		case "true":
			return &EBool{true}, nil
		case "false":
			return &EBool{false}, nil
		case "nil":
			return &ENil{}, nil
		case "old":
			if err := p.expect("("); err != nil {
				return nil, err
			}
			x, err := p.expr()
			if err != nil {
				return nil, err
			}
			if err := p.expect(")"); err != nil {
				return nil, err
			}
			return &EOld{x}, nil
		case "at":
			if p.isOp("(") {
				p.next()
				l := p.next()
				if l.k != tIdent {
					return nil, fmt.Errorf("expected label in at() at %d in %q", l.pos, p.src)
				}
				if err := p.expect(","); err != nil {
					return nil, err
				}
				x, err := p.expr()
				if err != nil {
					return nil, err
				}
				if err := p.expect(")"); err != nil {
					return nil, err
				}
				return &EAt{l.s, x}, nil
			}
		}
		if p.isOp("(") {
			p.next()
			args, err := p.args()
			if err != nil {
				return nil, err
			}
			return &ECall{Fn: t.s, Args: args}, nil
		}
		return &EIdent{t.s}, nil
	case tOp:
		if t.s == "(" {
			x, err := p.expr()
			if err != nil {
				return nil, err
			}
			if err := p.expect(")"); err != nil {
				return nil, err
			}
			return x, nil
		}
	}
	return nil, fmt.Errorf("unexpected token %q at %d in %q", t.s, t.pos, p.src)
}
