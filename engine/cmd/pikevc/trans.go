package main

// Translation of contract expressions to SMT terms, and heap access helpers.

import (
	"reflect"
	"fmt"
	"go/constant"
	"go/types"
	"strings"
)

// Val is a scalar SMT term (string), *SV (struct value) or *TV (tuple).
type Val interface{}

type SV struct {
	T types.Type
	F []Val
}
type TV struct{ E []Val }

// XT is the type of a contract expression: a Go type, or a ghost sort.
type XT struct {
	T types.Type
	S string // SMT sort (always set for scalars)
	K *XT    // for ghost maps: key / elem
	E *XT
}

func xtOf(t types.Type) XT { return XT{T: t, S: sortOf(t)} }

var (
	xtBool = XT{S: "Bool", T: types.Typ[types.Bool]}
	xtInt  = XT{S: "Int", T: types.Typ[types.Int]}
	xtStr  = XT{S: "Str", T: types.Typ[types.String]}
)

type binding struct {
	v  Val
	xt XT
}

type env struct {
	g       *gen
	vars    map[string]binding
	st, old *State
	pkgPath string
	imports map[string]string
	depth   int
	facts   *[]string // heap well-formedness facts about values loaded by the expression
	inQ     int       // inside a quantifier: loads may mention bound variables
}

// wellFormed records that a reference or slice read from the heap in state st is allocated there.
func (e *env) wellFormed(term string, xt XT) {
	if e.facts == nil || e.inQ > 0 || e.st == nil {
		return
	}
	switch xt.S {
	case "Ref":
		*e.facts = append(*e.facts, app("<", app("rootid", term), e.g.svGet(e.st, "$nxt", "Int")))
	case "Slice":
		*e.facts = append(*e.facts, app("validslice", term), app("<", app("sbase", term), e.g.svGet(e.st, "$nxt", "Int")))
	}
}

// trAssert: the clause as a proof obligation (well-formedness facts are hypotheses).
func (e *env) trAssert(x Expr) (string, error) {
	var facts []string
	n := *e
	n.facts = &facts
	t, err := n.trBool(x)
	if err != nil {
		return "", err
	}
	return implies(and(dedupe(facts)...), t), nil
}

// trAssume: the clause as an assumption (well-formedness facts are assumed along with it).
func (e *env) trAssume(x Expr) (string, error) {
	var facts []string
	n := *e
	n.facts = &facts
	t, err := n.trBool(x)
	if err != nil {
		return "", err
	}
	return and(append(dedupe(facts), t)...), nil
}

func dedupe(xs []string) []string {
	seen := map[string]bool{}
	var out []string
	for _, x := range xs {
		if !seen[x] {
			seen[x] = true
			out = append(out, x)
		}
	}
	return out
}

func (e *env) with(name string, b binding) *env {
	n := *e
	n.vars = make(map[string]binding, len(e.vars)+1)
	for k, v := range e.vars {
		n.vars[k] = v
	}
	n.vars[name] = b
	return &n
}

// ---- state variables ----

func (g *gen) svGet(st *State, name, sort string) string {
	g.noteVar(name, sort)
	if t, ok := st.m[name]; ok {
		return t
	}
	return g.c.declareConst(sanitize(name)+"@init", sort)
}

func (g *gen) svSet(st *State, name, sort, term string) {
	g.noteVar(name, sort)
	st.m[name] = term
}

// svFresh gives the state variable a fresh unconstrained version.
func (g *gen) svFresh(st *State, name, sort string) string {
	g.noteVar(name, sort)
	t := g.c.fresh(name, sort)
	st.m[name] = t
	return t
}

func (g *gen) noteVar(name, sort string) {
	if old, ok := g.allVars[name]; ok {
		if old != sort {
			panic(fmt.Sprintf("state var %s has two sorts: %s and %s", name, old, sort))
		}
		return
	}
	g.allVars[name] = sort
	g.newVars = true
}

// update a state variable through a defining equation (keeps terms small)
func (g *gen) svAssign(n *node, st *State, name, sort, term string) {
	nv := g.c.fresh(name, sort)
	n.assume(app("=", nv, term))
	g.svSet(st, name, sort, nv)
}

// ---- heap naming ----

func fieldMapName(structT types.Type, fieldName string) string {
	return "H." + typeKey(structT) + "." + fieldName
}

func cellMapName(t types.Type) string { return "C." + typeKey(t) }

func ghostFieldMapName(structT types.Type, f string) string {
	return "G." + typeKey(structT) + "." + f
}

// loadAt loads a value of Go type t stored at reference ref.
func (g *gen) loadAt(st *State, ref string, t types.Type) Val {
	if s, ok := isStruct(t); ok {
		sv := &SV{T: t}
		for i := 0; i < s.NumFields(); i++ {
			f := s.Field(i)
			if _, ok := isStruct(f.Type()); ok {
				sv.F = append(sv.F, g.loadAt(st, app("fld", ref, fmt.Sprint(i)), f.Type()))
			} else if _, ok := f.Type().Underlying().(*types.Array); ok {
				sv.F = append(sv.F, "0")
			} else if lv, ok := g.localCell[ref+"#"+f.Name()]; ok {
				sv.F = append(sv.F, g.svGet(st, lv, sortOf(f.Type())))
			} else {
				m := g.svGet(st, fieldMapName(t, f.Name()), "(Array Ref "+sortOf(f.Type())+")")
				sv.F = append(sv.F, app("select", m, ref))
			}
		}
		return sv
	}
	if _, ok := t.Underlying().(*types.Array); ok {
		return "0"
	}
	if lv, ok := g.localCell[ref+"#"]; ok {
		return g.svGet(st, lv, sortOf(t))
	}
	m := g.svGet(st, cellMapName(t), "(Array Ref "+sortOf(t)+")")
	return app("select", m, ref)
}

// registerLocal makes a non-escaping allocation a set of scalar state variables.
func (g *gen) registerLocal(ref string, t types.Type, name string) {
	if s, ok := isStruct(t); ok {
		for i := 0; i < s.NumFields(); i++ {
			f := s.Field(i)
			if _, ok := isStruct(f.Type()); ok {
				g.registerLocal(app("fld", ref, fmt.Sprint(i)), f.Type(), name+"."+f.Name())
			} else if _, ok := f.Type().Underlying().(*types.Array); ok {
				continue
			} else {
				g.localCell[ref+"#"+f.Name()] = name + "." + f.Name()
			}
		}
		return
	}
	g.localCell[ref+"#"] = name
}

// storeAt stores v (of Go type t) at ref.
func (g *gen) storeAt(n *node, st *State, ref string, t types.Type, v Val) {
	if s, ok := isStruct(t); ok {
		sv, ok := v.(*SV)
		if !ok {
			panic(fmt.Sprintf("storeAt: struct value expected for %s, got %T", t, v))
		}
		for i := 0; i < s.NumFields(); i++ {
			f := s.Field(i)
			if _, ok := isStruct(f.Type()); ok {
				g.storeAt(n, st, app("fld", ref, fmt.Sprint(i)), f.Type(), sv.F[i])
			} else if _, ok := f.Type().Underlying().(*types.Array); ok {
				continue
			} else if lv, ok := g.localCell[ref+"#"+f.Name()]; ok {
				g.svSet(st, lv, sortOf(f.Type()), sv.F[i].(string))
			} else {
				name := fieldMapName(t, f.Name())
				sort := "(Array Ref " + sortOf(f.Type()) + ")"
				m := g.svGet(st, name, sort)
				g.svAssign(n, st, name, sort, app("store", m, ref, sv.F[i].(string)))
			}
		}
		return
	}
	if _, ok := t.Underlying().(*types.Array); ok {
		return
	}
	if lv, ok := g.localCell[ref+"#"]; ok {
		g.svSet(st, lv, sortOf(t), v.(string))
		return
	}
	name := cellMapName(t)
	sort := "(Array Ref " + sortOf(t) + ")"
	m := g.svGet(st, name, sort)
	g.svAssign(n, st, name, sort, app("store", m, ref, v.(string)))
}

func (g *gen) zeroVal(t types.Type) Val {
	if s, ok := isStruct(t); ok {
		sv := &SV{T: t}
		for i := 0; i < s.NumFields(); i++ {
			sv.F = append(sv.F, g.zeroVal(s.Field(i).Type()))
		}
		return sv
	}
	if tp, ok := t.Underlying().(*types.Tuple); ok {
		tv := &TV{}
		for i := 0; i < tp.Len(); i++ {
			tv.E = append(tv.E, g.zeroVal(tp.At(i).Type()))
		}
		return tv
	}
	z := zeroOfSort(sortOf(t))
	if z == "" {
		return "0"
	}
	return z
}

// freshVal creates an unconstrained value of Go type t, returning type-invariant assumptions.
func (g *gen) freshVal(prefix string, t types.Type, st *State) (Val, []string) {
	var assumes []string
	if s, ok := isStruct(t); ok {
		sv := &SV{T: t}
		for i := 0; i < s.NumFields(); i++ {
			v, as := g.freshVal(prefix+"."+s.Field(i).Name(), s.Field(i).Type(), st)
			sv.F = append(sv.F, v)
			assumes = append(assumes, as...)
		}
		return sv, assumes
	}
	if tp, ok := t.Underlying().(*types.Tuple); ok {
		tv := &TV{}
		for i := 0; i < tp.Len(); i++ {
			v, as := g.freshVal(fmt.Sprintf("%s.%d", prefix, i), tp.At(i).Type(), st)
			tv.E = append(tv.E, v)
			assumes = append(assumes, as...)
		}
		return tv, assumes
	}
	srt := sortOf(t)
	if srt == "ARRAY" {
		return "0", nil
	}
	c := g.c.fresh(prefix, srt)
	assumes = append(assumes, g.typeInv(c, t, st)...)
	return c, assumes
}

// typeInv: facts every value of Go type t satisfies (ranges, allocated-ness).
func (g *gen) typeInv(term string, t types.Type, st *State) []string {
	var out []string
	switch sortOf(t) {
	case "Int":
		if in, _ := intRange(t); in != "" {
			out = append(out, app(in, term))
		}
	case "Ref":
		if st != nil {
			out = append(out, app("<", app("rootid", term), g.svGet(st, "$nxt", "Int")))
			if ti := g.typeInvFor(t); ti != nil && !g.inTypeInv {
				g.inTypeInv = true
				e := &env{g: g, vars: map[string]binding{ti.Var: {term, xtOf(t)}}, st: st, old: st, pkgPath: ti.PkgPath, imports: ti.Imports}
				if tt, err := e.trBool(ti.E); err == nil {
					out = append(out, implies(not(app("=", term, "null")), tt))
					g.used["typeinv:"+ti.PkgPath+"."+ti.Type] = true
				} else {
					g.errorf("typeinv %s: %v", ti.Type, err)
				}
				g.inTypeInv = false
			}
		}
	case "Str":
		if g.c.strMode {
			out = append(out, app("<=", app("str.len", term), "281474976710656"))
		}
	case "Slice":
		out = append(out, app("validslice", term))
		if st != nil {
			out = append(out, app("<", app("sbase", term), g.svGet(st, "$nxt", "Int")))
		}
	}
	return out
}

func (g *gen) typeInvFor(t types.Type) *TypeInv {
	p, ok := t.Underlying().(*types.Pointer)
	if !ok {
		return nil
	}
	k, ok := namedStructKey(p.Elem())
	if !ok {
		return nil
	}
	return g.P.spec.TypeInvs[k]
}

func valTypeInv(g *gen, v Val, t types.Type, st *State) []string {
	switch x := v.(type) {
	case string:
		return g.typeInv(x, t, st)
	case *SV:
		s, _ := isStruct(t)
		var out []string
		for i := range x.F {
			out = append(out, valTypeInv(g, x.F[i], s.Field(i).Type(), st)...)
		}
		return out
	}
	return nil
}

// ---- type resolution for contract type expressions ----

func (g *gen) lookupPkg(name, pkgPath string, imports map[string]string) *types.Package {
	if p, ok := imports[name]; ok {
		if tp := g.P.tpkgs[p]; tp != nil {
			return tp
		}
	}
	if self := g.P.tpkgs[pkgPath]; self != nil {
		for _, imp := range self.Imports() {
			if imp.Name() == name {
				return imp
			}
		}
		// named imports (alias) are not visible in types.Package; search the source files
		if alias := g.P.importAlias[pkgPath][name]; alias != "" {
			return g.P.tpkgs[alias]
		}
	}
	// unique package with this name among all loaded
	var found *types.Package
	for _, tp := range g.P.tpkgs {
		if tp.Name() == name {
			if found != nil && found != tp {
				return nil
			}
			found = tp
		}
	}
	return found
}

// resolveType returns a Go type, or a ghost sort (second result) when the name is a ghost sort.
func (g *gen) resolveType(te *TypeExpr, pkgPath string, imports map[string]string) (XT, error) {
	switch te.Kind {
	case "ptr":
		el, err := g.resolveType(te.Elem, pkgPath, imports)
		if err != nil {
			return XT{}, err
		}
		if el.T == nil {
			return XT{S: "Ref"}, nil
		}
		return xtOf(types.NewPointer(el.T)), nil
	case "slice":
		el, err := g.resolveType(te.Elem, pkgPath, imports)
		if err != nil {
			return XT{}, err
		}
		if el.T == nil {
			return XT{}, fmt.Errorf("slice of ghost sort not supported")
		}
		return xtOf(types.NewSlice(el.T)), nil
	case "chan":
		el, err := g.resolveType(te.Elem, pkgPath, imports)
		if err != nil {
			return XT{}, err
		}
		return xtOf(types.NewChan(types.SendRecv, el.T)), nil
	case "map":
		k, err := g.resolveType(te.Key, pkgPath, imports)
		if err != nil {
			return XT{}, err
		}
		v, err := g.resolveType(te.Elem, pkgPath, imports)
		if err != nil {
			return XT{}, err
		}
		return XT{S: "(Array " + k.S + " " + v.S + ")", K: &k, E: &v}, nil
	case "set":
		k, err := g.resolveType(te.Key, pkgPath, imports)
		if err != nil {
			return XT{}, err
		}
		return XT{S: "(Array " + k.S + " Bool)", K: &k, E: &xtBool}, nil
	}
	name := te.Name
	switch name {
	case "int", "int64", "int32", "int16", "int8", "uint", "uint64", "uint32", "uint16", "uint8", "byte", "bool", "string", "float64", "error", "uintptr", "rune":
		return xtOf(types.Universe.Lookup(name).Type()), nil
	case "any", "interface{}":
		return xtOf(types.NewInterfaceType(nil, nil)), nil
	case "struct{}":
		return xtOf(types.NewStruct(nil, nil)), nil
	case "func":
		return XT{S: "Ref", T: types.NewSignatureType(nil, nil, nil, nil, nil, false)}, nil
	case "Int", "Bool", "Ref", "Str", "Slice", "Iface", "Bytes":
		return XT{S: name}, nil
	}
	if i := strings.Index(name, "."); i >= 0 {
		p := g.lookupPkg(name[:i], pkgPath, imports)
		if p == nil {
			return XT{}, fmt.Errorf("unknown package %q in type %s", name[:i], name)
		}
		obj := p.Scope().Lookup(name[i+1:])
		if tn, ok := obj.(*types.TypeName); ok {
			return xtOf(tn.Type()), nil
		}
		return XT{}, fmt.Errorf("unknown type %s", name)
	}
	if self := g.P.tpkgs[pkgPath]; self != nil {
		if tn, ok := self.Scope().Lookup(name).(*types.TypeName); ok {
			return xtOf(tn.Type()), nil
		}
	}
	if g.P.spec.Sorts[name] {
		g.c.declareSort(name)
		return XT{S: name}, nil
	}
	return XT{}, fmt.Errorf("unknown type %q (package %s)", name, pkgPath)
}

// ---- expression translation ----

func (e *env) errf(format string, args ...interface{}) error {
	return fmt.Errorf(format, args...)
}

// trBool translates a boolean contract expression.
func (e *env) trBool(x Expr) (string, error) {
	v, xt, err := e.tr(x)
	if err != nil {
		return "", err
	}
	s, ok := v.(string)
	if !ok || xt.S != "Bool" {
		return "", fmt.Errorf("boolean expression expected: %s (sort %s)", x, xt.S)
	}
	return s, nil
}

func derefStruct(t types.Type) (types.Type, bool) {
	if t == nil {
		return nil, false
	}
	if p, ok := t.Underlying().(*types.Pointer); ok {
		if _, ok := isStruct(p.Elem()); ok {
			return p.Elem(), true
		}
	}
	return nil, false
}

func (e *env) tr(x Expr) (Val, XT, error) {
	g := e.g
	switch x := x.(type) {
	case *EInt:
		return smtInt(x.V), xtInt, nil
	case *EStr:
		return g.c.strLit(x.V), xtStr, nil
	case *EBool:
		if x.V {
			return "true", xtBool, nil
		}
		return "false", xtBool, nil
	case *ENil:
		return "null", XT{S: "NIL"}, nil
	case *EIdent:
		if b, ok := e.vars[x.Name]; ok {
			return b.v, b.xt, nil
		}
		if strings.HasPrefix(x.Name, "$") {
			gd := g.P.spec.GhostVars[x.Name]
			if gd == nil {
				return nil, XT{}, e.errf("unknown ghost variable %s", x.Name)
			}
			xt, err := g.resolveType(gd.Type, gd.PkgPath, gd.Imports)
			if err != nil {
				return nil, XT{}, err
			}
			return g.svGet(e.st, x.Name, xt.S), xt, nil
		}
		if x.Name == "$nxt" {
			return g.svGet(e.st, "$nxt", "Int"), xtInt, nil
		}
		if self := g.P.tpkgs[e.pkgPath]; self != nil {
			if obj := self.Scope().Lookup(x.Name); obj != nil {
				return e.trObject(obj)
			}
		}
		return nil, XT{}, e.errf("unknown identifier %q", x.Name)
	case *ESel:
		if id, ok := x.X.(*EIdent); ok {
			if _, bound := e.vars[id.Name]; !bound {
				if p := g.lookupPkg(id.Name, e.pkgPath, e.imports); p != nil {
					obj := p.Scope().Lookup(x.Sel)
					if obj == nil {
						return nil, XT{}, e.errf("unknown object %s.%s", id.Name, x.Sel)
					}
					return e.trObject(obj)
				}
			}
		}
		v, xt, err := e.tr(x.X)
		if err != nil {
			return nil, XT{}, err
		}
		return e.selectField(v, xt, x.Sel, x)
	case *EIndex:
		v, xt, err := e.tr(x.X)
		if err != nil {
			return nil, XT{}, err
		}
		iv, ixt, err := e.tr(x.I)
		if err != nil {
			return nil, XT{}, err
		}
		if xt.K != nil { // ghost map
			is := iv.(string)
			if ixt.S == "NIL" {
				is = zeroOfSort(xt.K.S)
			}
			return app("select", v.(string), is), *xt.E, nil
		}
		if xt.T != nil {
			if mt, ok := xt.T.Underlying().(*types.Map); ok && sortOf(mt.Elem()) != "STRUCT" && sortOf(mt.Key()) != "STRUCT" {
				mn, ms, dn, ds, _ := mapVars(xt.T)
				m := v.(string)
				cont := app("select", app("select", g.svGet(e.st, mn, ms), m), iv.(string))
				dom := and(not(app("=", m, "null")), app("select", app("select", g.svGet(e.st, dn, ds), m), iv.(string)))
				return app("ite", dom, cont, zeroOfSort(sortOf(mt.Elem()))), xtOf(mt.Elem()), nil
			}
			if sl, ok := xt.T.Underlying().(*types.Slice); ok {
				s := v.(string)
				ref := app("eref", s, iv.(string))
				lv := g.loadAt(e.st, ref, sl.Elem())
				if ls, ok := lv.(string); ok {
					e.wellFormed(ls, xtOf(sl.Elem()))
				}
				return lv, xtOf(sl.Elem()), nil
			}
		}
		return nil, XT{}, e.errf("cannot index %s", x.X)
	case *EOld:
		n := *e
		n.st = e.old
		return n.tr(x.X)
	case *EAt:
		n := *e
		n.st = g.snapView(e.st, x.Label)
		return n.tr(x.X)
	case *EUn:
		v, xt, err := e.tr(x.X)
		if err != nil {
			return nil, XT{}, err
		}
		if x.Op == "!" {
			return not(v.(string)), xtBool, nil
		}
		return app("-", v.(string)), xt, nil
	case *EIte:
		c, err := e.trBool(x.C)
		if err != nil {
			return nil, XT{}, err
		}
		a, axt, err := e.tr(x.A)
		if err != nil {
			return nil, XT{}, err
		}
		b, bxt, err := e.tr(x.B)
		if err != nil {
			return nil, XT{}, err
		}
		if axt.S == "NIL" {
			a, axt = zeroOfSort(bxt.S), bxt
		}
		if bxt.S == "NIL" {
			b = zeroOfSort(axt.S)
		}
		return app("ite", c, a.(string), b.(string)), axt, nil
	case *EQuant:
		n := e
		var binds []string
		var guards []string
		for _, qv := range x.Vars {
			xt, err := g.resolveType(qv.Type, e.pkgPath, e.imports)
			if err != nil {
				return nil, XT{}, err
			}
			if xt.S == "STRUCT" {
				return nil, XT{}, e.errf("cannot quantify over struct values")
			}
			name := fmt.Sprintf("q_%s_%d", qv.Name, g.c.counter)
			g.c.counter++
			binds = append(binds, "("+name+" "+xt.S+")")
			n = n.with(qv.Name, binding{name, xt})
			if xt.T != nil {
				if xt.S == "Ref" || xt.S == "Slice" {
					guards = append(guards, g.typeInv(name, xt.T, e.st)...)
				}
			}
		}
		nq := *n
		nq.inQ = e.inQ + 1
		n = &nq
		body, err := n.trBool(x.Body)
		if err != nil {
			return nil, XT{}, err
		}
		_ = guards
		q := "exists"
		if x.Forall {
			q = "forall"
		}
		if len(x.Patterns) > 0 {
			var ps []string
			for _, pe := range x.Patterns {
				pv, _, err := n.tr(pe)
				if err != nil {
					return nil, XT{}, err
				}
				if s, ok := pv.(string); ok {
					ps = append(ps, s)
				}
			}
			attrs := " :pattern (" + strings.Join(ps, " ") + ")"
			for _, grp := range x.AltPatterns {
				var qs []string
				for _, pe := range grp {
					pv, _, err := n.tr(pe)
					if err != nil {
						return nil, XT{}, err
					}
					if s, ok := pv.(string); ok {
						qs = append(qs, s)
					}
				}
				attrs += " :pattern (" + strings.Join(qs, " ") + ")"
			}
			body = "(! " + body + attrs + ")"
		}
		return "(" + q + " (" + strings.Join(binds, " ") + ") " + body + ")", xtBool, nil
	case *EBin:
		return e.trBin(x)
	case *ECall:
		return e.trCall(x)
	}
	return nil, XT{}, e.errf("unsupported expression %s", x)
}

func (e *env) trObject(obj types.Object) (Val, XT, error) {
	g := e.g
	switch o := obj.(type) {
	case *types.Const:
		xt := xtOf(o.Type())
		switch o.Val().Kind() {
		case constant.Int:
			return smtInt(o.Val().ExactString()), xt, nil
		case constant.String:
			return g.c.strLit(constant.StringVal(o.Val())), xt, nil
		case constant.Bool:
			return fmt.Sprint(constant.BoolVal(o.Val())), xt, nil
		}
	case *types.Var:
		// package-level variable
		key := o.Pkg().Path() + "." + o.Name()
		return g.loadGlobal(e.st, key, o.Type()), xtOf(o.Type()), nil
	}
	return nil, XT{}, e.errf("unsupported object %s", obj)
}

func (e *env) selectField(v Val, xt XT, sel string, x Expr) (Val, XT, error) {
	g := e.g
	if sv, ok := v.(*SV); ok {
		s, _ := isStruct(sv.T)
		for i := 0; i < s.NumFields(); i++ {
			if s.Field(i).Name() == sel {
				return sv.F[i], xtOf(s.Field(i).Type()), nil
			}
		}
		return nil, XT{}, e.errf("no field %s in %s", sel, sv.T)
	}
	if st, ok := derefStruct(xt.T); ok {
		s, _ := isStruct(st)
		for i := 0; i < s.NumFields(); i++ {
			f := s.Field(i)
			if f.Name() == sel {
				if _, ok := isStruct(f.Type()); ok {
					return g.loadAt(e.st, app("fld", v.(string), fmt.Sprint(i)), f.Type()), xtOf(f.Type()), nil
				}
				m := g.svGet(e.st, fieldMapName(st, f.Name()), "(Array Ref "+sortOf(f.Type())+")")
				ld := app("select", m, v.(string))
				e.wellFormed(ld, xtOf(f.Type()))
				return ld, xtOf(f.Type()), nil
			}
		}
		// ghost field
		if nt, ok := st.(*types.Named); ok && nt.Obj().Pkg() != nil {
			if gd := g.P.spec.GhostFields[nt.Obj().Pkg().Path()+"."+nt.Obj().Name()+"."+sel]; gd != nil {
				gxt, err := g.resolveType(gd.Type, gd.PkgPath, gd.Imports)
				if err != nil {
					return nil, XT{}, err
				}
				m := g.svGet(e.st, ghostFieldMapName(st, sel), "(Array Ref "+gxt.S+")")
				return app("select", m, v.(string)), gxt, nil
			}
		}
		return nil, XT{}, e.errf("no field or ghost field %s in %s", sel, st)
	}
	// ghost field on a non-struct named type (e.g. http.Header, *lru.Cache via pointer to opaque)
	if xt.T != nil {
		t := xt.T
		if p, ok := t.Underlying().(*types.Pointer); ok {
			t = p.Elem()
		}
		if nt, ok := t.(*types.Named); ok && nt.Obj().Pkg() != nil {
			if gd := g.P.spec.GhostFields[nt.Obj().Pkg().Path()+"."+nt.Obj().Name()+"."+sel]; gd != nil {
				gxt, err := g.resolveType(gd.Type, gd.PkgPath, gd.Imports)
				if err != nil {
					return nil, XT{}, err
				}
				m := g.svGet(e.st, ghostFieldMapName(t, sel), "(Array "+xt.S+" "+gxt.S+")")
				return app("select", m, v.(string)), gxt, nil
			}
		}
	}
	return nil, XT{}, e.errf("cannot select .%s on %s", sel, x)
}

func (e *env) trBin(x *EBin) (Val, XT, error) {
	switch x.Op {
	case "&&", "||", "==>", "<==>":
		l, err := e.trBool(x.L)
		if err != nil {
			return nil, XT{}, err
		}
		r, err := e.trBool(x.R)
		if err != nil {
			return nil, XT{}, err
		}
		switch x.Op {
		case "&&":
			return and(l, r), xtBool, nil
		case "||":
			return or(l, r), xtBool, nil
		case "==>":
			return app("=>", l, r), xtBool, nil
		default:
			return app("=", l, r), xtBool, nil
		}
	}
	lv, lxt, err := e.tr(x.L)
	if err != nil {
		return nil, XT{}, err
	}
	rv, rxt, err := e.tr(x.R)
	if err != nil {
		return nil, XT{}, err
	}
	if lxt.S == "NIL" && rxt.S != "NIL" {
		lv, lxt = zeroOfSort(rxt.S), rxt
	}
	if rxt.S == "NIL" && lxt.S != "NIL" {
		rv, rxt = zeroOfSort(lxt.S), lxt
	}
	ls, lok := lv.(string)
	rs, rok := rv.(string)
	if !lok || !rok {
		return nil, XT{}, e.errf("operator %s on composite values: %s", x.Op, x)
	}
	switch x.Op {
	case "==", "!=":
		if lxt.S != rxt.S {
			return nil, XT{}, e.errf("comparison of different sorts %s vs %s in %s", lxt.S, rxt.S, x)
		}
		t := app("=", ls, rs)
		if x.Op == "!=" {
			t = not(t)
		}
		return t, xtBool, nil
	case "<", "<=", ">", ">=":
		return app(x.Op, ls, rs), xtBool, nil
	case "+":
		if lxt.S == "Str" {
			return app("strcat", ls, rs), xtStr, nil
		}
		return app("+", ls, rs), xtInt, nil
	case "-", "*":
		return app(x.Op, ls, rs), xtInt, nil
	case "/":
		return app("godiv", ls, rs), xtInt, nil
	case "%":
		return app("gomod", ls, rs), xtInt, nil
	}
	return nil, XT{}, e.errf("unsupported operator %s", x.Op)
}

func (e *env) trCall(x *ECall) (Val, XT, error) {
	g := e.g
	argv := func(i int) (string, XT, error) {
		if i >= len(x.Args) {
			return "", XT{}, e.errf("%s: missing argument %d", x.Fn, i)
		}
		v, xt, err := e.tr(x.Args[i])
		if err != nil {
			return "", XT{}, err
		}
		s, ok := v.(string)
		if !ok {
			return "", XT{}, e.errf("%s: scalar argument expected", x.Fn)
		}
		return s, xt, nil
	}
	switch x.Fn {
	case "len":
		v, xt, err := argv(0)
		if err != nil {
			return nil, XT{}, err
		}
		switch xt.S {
		case "Slice":
			return app("slen", v), xtInt, nil
		case "Str":
			return app("strlen", v), xtInt, nil
		case "Bytes":
			return app("u_blen", v), xtInt, nil
		}
		return nil, XT{}, e.errf("len of %s (sort %s)", x.Args[0], xt.S)
	case "held", "rheld", "anyheld":
		v, _, err := argv(0)
		if err != nil {
			return nil, XT{}, err
		}
		h := app("select", g.svGet(e.st, "$held", "(Array Ref Int)"), v)
		switch x.Fn {
		case "held":
			return app("=", h, "1"), xtBool, nil
		case "rheld":
			return app("=", h, "2"), xtBool, nil
		}
		return not(app("=", h, "0")), xtBool, nil
	case "nolocks":
		return app("=", g.svGet(e.st, "$held", "(Array Ref Int)"), "((as const (Array Ref Int)) 0)"), xtBool, nil
	case "fresh":
		v, xt, err := argv(0)
		if err != nil {
			return nil, XT{}, err
		}
		lo := g.svGet(e.old, "$nxt", "Int")
		hi := g.svGet(e.st, "$nxt", "Int")
		if xt.S == "Slice" {
			return and(app(">=", app("sbase", v), lo), app("<", app("sbase", v), hi)), xtBool, nil
		}
		return and(app("(_ is obj)", v), app(">=", app("oid", v), lo), app("<", app("oid", v), hi)), xtBool, nil
	case "allocatedBefore":
		v, xt, err := argv(0)
		if err != nil {
			return nil, XT{}, err
		}
		lo := g.svGet(e.old, "$nxt", "Int")
		if xt.S == "Slice" {
			return app("<", app("sbase", v), lo), xtBool, nil
		}
		return app("<", app("rootid", v), lo), xtBool, nil
	case "allocated":
		v, xt, err := argv(0)
		if err != nil {
			return nil, XT{}, err
		}
		hi := g.svGet(e.st, "$nxt", "Int")
		if xt.S == "Slice" {
			return app("<", app("sbase", v), hi), xtBool, nil
		}
		return app("<", app("rootid", v), hi), xtBool, nil
	case "wrap64", "wrap32", "uwrap64", "uwrap32", "in64", "in32", "inu32", "inu64":
		v, _, err := argv(0)
		if err != nil {
			return nil, XT{}, err
		}
		if strings.HasPrefix(x.Fn, "in") {
			return app(x.Fn, v), xtBool, nil
		}
		return app(x.Fn, v), xtInt, nil
	case "f2i":
		// Go's float64 -> int conversion (truncation), the same uninterpreted function execConvert uses
		v, xt, err := argv(0)
		if err != nil {
			return nil, XT{}, err
		}
		if xt.S != "Real" {
			return nil, XT{}, e.errf("f2i needs a float64 argument")
		}
		g.c.declareFun("f2i", []string{"Real"}, "Int")
		return app("f2i", v), xtInt, nil
	case "int", "int64", "int32", "uint64", "uint32", "uint8", "byte", "uint":
		v, _, err := argv(0)
		if err != nil {
			return nil, XT{}, err
		}
		t := types.Universe.Lookup(x.Fn).Type()
		_, w := intRange(t)
		return app(w, v), xtOf(t), nil
	case "store":
		m, mxt, err := argv(0)
		if err != nil {
			return nil, XT{}, err
		}
		k, _, err := argv(1)
		if err != nil {
			return nil, XT{}, err
		}
		v, vxt, err := argv(2)
		if err != nil {
			return nil, XT{}, err
		}
		if vxt.S == "NIL" && mxt.E != nil {
			v = zeroOfSort(mxt.E.S)
		}
		return app("store", m, k, v), mxt, nil
	case "emptyset", "emptymap":
		// emptyset(K) / emptymap(K,V) are typed by context: need explicit sorts as string args
		return nil, XT{}, e.errf("%s not supported; compare via forall", x.Fn)
	case "reMatchLit":
		// reMatchLit(G, s): the regexp held by package variable G (compiled from a literal) matches in s
		id, ok := x.Args[0].(*EIdent)
		if !ok {
			return nil, XT{}, e.errf("reMatchLit(G, s): G must name a package-level regexp variable")
		}
		sv, _, err := argv(1)
		if err != nil {
			return nil, XT{}, err
		}
		key := e.pkgPath + "." + id.Name
		if g.c.strMode {
			lit, ok := g.P.reLits[key]
			if !ok {
				return nil, XT{}, e.errf("reMatchLit: %s is not initialised with regexp.MustCompile(literal)", key)
			}
			re, err := goRegexSearchSMT(lit)
			if err != nil {
				return nil, XT{}, e.errf("reMatchLit %s: %v", key, err)
			}
			g.used["regex-literal:"+key+"="+lit] = true
			return app("str.in_re", sv, re), xtBool, nil
		}
		gv, gxt, err := e.tr(x.Args[0])
		if err != nil {
			return nil, XT{}, err
		}
		g.c.declareFun("u_reMatch", []string{gxt.S, "Str"}, "Bool")
		return app("u_reMatch", gv.(string), sv), xtBool, nil
	case "ciContains":
		sv, _, err := argv(0)
		if err != nil {
			return nil, XT{}, err
		}
		lit, ok := x.Args[1].(*EStr)
		if !ok {
			return nil, XT{}, e.errf("ciContains(s, \"literal\")")
		}
		if g.c.strMode {
			return app("str.in_re", sv, ciLiteralSearchSMT(lit.V)), xtBool, nil
		}
		g.c.declareFun("u_ciContains", []string{"Str", "Str"}, "Bool")
		return app("u_ciContains", sv, g.c.strLit(lit.V)), xtBool, nil
	case "applyBool", "applyInt", "applyStr":
		// the result of calling the pure function value f on the given arguments
		if len(x.Args) < 1 {
			return nil, XT{}, e.errf("%s(f, args...)", x.Fn)
		}
		var terms, sorts []string
		for i := range x.Args {
			v, xt, err := argv(i)
			if err != nil {
				return nil, XT{}, err
			}
			terms = append(terms, v)
			sorts = append(sorts, xt.S)
		}
		res := map[string]XT{"applyBool": xtBool, "applyInt": xtInt, "applyStr": xtStr}[x.Fn]
		fn := "apply_" + sanitize(strings.Join(sorts[1:], "_")) + "_" + res.S
		g.c.declareFun(fn, sorts, res.S)
		return app(fn, terms...), res, nil
	case "sbaseOf":
		v, _, err := argv(0)
		if err != nil {
			return nil, XT{}, err
		}
		return app("sbase", v), xtInt, nil
	case "contentsN":
		// contentsN(s, n): the contents of s[:n]
		v, _, err := argv(0)
		if err != nil {
			return nil, XT{}, err
		}
		nv, _, err := argv(1)
		if err != nil {
			return nil, XT{}, err
		}
		g.c.declareFun("bsub", []string{"Bytes", "Int", "Int"}, "Bytes")
		m := g.svGet(e.st, "$bytes", "(Array Int Bytes)")
		return app("bsub", app("select", m, app("sbase", v)), app("soff", v), nv), XT{S: "Bytes"}, nil
	case "hastag":
		// hastag("T", "Field", "token"): the validate struct tag of T.Field, read from the real type,
		// contains the token - so that contracts about tag-driven validation follow the tags in the code
		if len(x.Args) != 3 {
			return nil, XT{}, e.errf("hastag(type, field, token)")
		}
		var lit [3]string
		for i, a := range x.Args {
			s, ok := a.(*EStr)
			if !ok {
				return nil, XT{}, e.errf("hastag takes string literals")
			}
			lit[i] = s.V
		}
		pkg := g.P.tpkgs[e.pkgPath]
		if pkg == nil {
			return nil, XT{}, e.errf("hastag: unknown package %s", e.pkgPath)
		}
		obj := pkg.Scope().Lookup(lit[0])
		if obj == nil {
			return nil, XT{}, e.errf("hastag: unknown type %s", lit[0])
		}
		st, ok := obj.Type().Underlying().(*types.Struct)
		if !ok {
			return nil, XT{}, e.errf("hastag: %s is not a struct", lit[0])
		}
		for i := 0; i < st.NumFields(); i++ {
			if st.Field(i).Name() != lit[1] {
				continue
			}
			val := reflect.StructTag(st.Tag(i)).Get("validate")
			for _, tok := range strings.Split(val, ",") {
				if strings.TrimSpace(tok) == lit[2] {
					return "true", xtBool, nil
				}
			}
			return "false", xtBool, nil
		}
		return nil, XT{}, e.errf("hastag: %s has no field %s", lit[0], lit[1])
	case "strContains":
		a, _, err := argv(0)
		if err != nil {
			return nil, XT{}, err
		}
		b, _, err := argv(1)
		if err != nil {
			return nil, XT{}, err
		}
		if g.c.strMode {
			return app("str.contains", a, b), xtBool, nil
		}
		g.c.declareFun("u_contains", []string{"Str", "Str"}, "Bool")
		return app("u_contains", a, b), xtBool, nil
	case "contents":
		v, xt, err := argv(0)
		if err != nil {
			return nil, XT{}, err
		}
		if xt.S != "Slice" {
			return nil, XT{}, e.errf("contents() of non-slice")
		}
		return g.bytesOf(e.st, v), XT{S: "Bytes"}, nil
	case "b2s":
		v, _, err := argv(0)
		if err != nil {
			return nil, XT{}, err
		}
		g.c.declareFun("b2s", []string{"Bytes"}, "Str")
		return app("b2s", v), xtStr, nil
	case "s2b":
		v, _, err := argv(0)
		if err != nil {
			return nil, XT{}, err
		}
		g.c.declareFun("s2b", []string{"Str"}, "Bytes")
		return app("s2b", v), XT{S: "Bytes"}, nil
	case "elemaddr":
		v, xt, err := argv(0)
		if err != nil {
			return nil, XT{}, err
		}
		iv, _, err := argv(1)
		if err != nil {
			return nil, XT{}, err
		}
		sl, ok := xt.T.Underlying().(*types.Slice)
		if !ok {
			return nil, XT{}, e.errf("elemaddr of non-slice")
		}
		return app("eref", v, iv), xtOf(types.NewPointer(sl.Elem())), nil
	case "has":
		// has(m, k): key k is present in Go map m
		mv, mxt, err := argv(0)
		if err != nil {
			return nil, XT{}, err
		}
		kv, _, err := argv(1)
		if err != nil {
			return nil, XT{}, err
		}
		if mxt.T == nil {
			return nil, XT{}, e.errf("has() of a non-map")
		}
		if _, ok := mxt.T.Underlying().(*types.Map); !ok {
			return nil, XT{}, e.errf("has() of a non-map")
		}
		_, _, dn, ds, _ := mapVars(mxt.T)
		return and(not(app("=", mv, "null")), app("select", app("select", g.svGet(e.st, dn, ds), mv), kv)), xtBool, nil
	case "deref":
		v, xt, err := argv(0)
		if err != nil {
			return nil, XT{}, err
		}
		if xt.T == nil {
			return nil, XT{}, e.errf("deref of ghost value")
		}
		p, ok := xt.T.Underlying().(*types.Pointer)
		if !ok {
			return nil, XT{}, e.errf("deref of non-pointer %s", x.Args[0])
		}
		// a pointer obtained by taking a field's address reads that field
		key := v
		if m := unboxRe.FindStringSubmatch(key); m != nil {
			key = m[1]
		}
		if fa, ok := g.fieldRefs[key]; ok {
			if lv, ok := g.localCell[fa.base+"#"+fa.field.Name()]; ok {
				return g.svGet(e.st, lv, sortOf(fa.field.Type())), xtOf(fa.field.Type()), nil
			}
			if _, isS := isStruct(fa.field.Type()); !isS {
				m := g.svGet(e.st, fieldMapName(fa.structT, fa.field.Name()), "(Array Ref "+sortOf(fa.field.Type())+")")
				return app("select", m, fa.base), xtOf(fa.field.Type()), nil
			}
		}
		return g.loadAt(e.st, v, p.Elem()), xtOf(p.Elem()), nil
	case "isnil":
		v, xt, err := argv(0)
		if err != nil {
			return nil, XT{}, err
		}
		return app("=", v, zeroOfSort(xt.S)), xtBool, nil
	case "typeis":
		// typeis(v, T): dynamic type of interface v is T
		v, _, err := argv(0)
		if err != nil {
			return nil, XT{}, err
		}
		te, ok := x.Args[1].(*EStr)
		if !ok {
			return nil, XT{}, e.errf("typeis(v, \"type\")")
		}
		toks, err := lex(te.V)
		if err != nil {
			return nil, XT{}, err
		}
		pp := &parser{toks: toks, src: te.V}
		tx, err := pp.typeExpr()
		if err != nil {
			return nil, XT{}, err
		}
		txt, err := g.resolveType(tx, e.pkgPath, e.imports)
		if err != nil {
			return nil, XT{}, err
		}
		return app("=", app("itag", v), fmt.Sprint(g.c.typeTag(txt.T))), xtBool, nil
	case "unbox":
		// unbox(v, "T"): payload of interface v as type T
		v, _, err := argv(0)
		if err != nil {
			return nil, XT{}, err
		}
		te, ok := x.Args[1].(*EStr)
		if !ok {
			return nil, XT{}, e.errf("unbox(v, \"type\")")
		}
		toks, err := lex(te.V)
		if err != nil {
			return nil, XT{}, err
		}
		pp := &parser{toks: toks, src: te.V}
		tx, err := pp.typeExpr()
		if err != nil {
			return nil, XT{}, err
		}
		txt, err := g.resolveType(tx, e.pkgPath, e.imports)
		if err != nil {
			return nil, XT{}, err
		}
		_, un := g.c.boxFn(txt.S)
		return app(un, v), txt, nil
	case "box":
		v, xt, err := argv(0)
		if err != nil {
			return nil, XT{}, err
		}
		if xt.T == nil {
			return nil, XT{}, e.errf("box needs a Go-typed argument")
		}
		return g.makeIface(nil, xt.T, v), XT{S: "Iface", T: types.NewInterfaceType(nil, nil)}, nil
	}
	// user-defined predicate / spec function
	sf := g.P.spec.Preds[x.Fn]
	if sf == nil {
		return nil, XT{}, e.errf("unknown function %s in contract", x.Fn)
	}
	if len(x.Args) != len(sf.Params) {
		return nil, XT{}, e.errf("%s expects %d arguments", x.Fn, len(sf.Params))
	}
	resXT := xtBool
	if sf.Result != nil {
		var err error
		resXT, err = g.resolveType(sf.Result, sf.PkgPath, sf.Imports)
		if err != nil {
			return nil, XT{}, err
		}
	}
	var argVals []Val
	var argXT []XT
	for i, a := range x.Args {
		v, xt, err := e.tr(a)
		if err != nil {
			return nil, XT{}, err
		}
		pxt, err := g.resolveType(sf.Params[i].Type, sf.PkgPath, sf.Imports)
		if err != nil {
			return nil, XT{}, err
		}
		if xt.S == "NIL" {
			v = zeroOfSort(pxt.S)
		} else if pxt.S != xt.S {
			return nil, XT{}, e.errf("%s: argument %d has sort %s, expected %s", x.Fn, i, xt.S, pxt.S)
		}
		argVals = append(argVals, v)
		argXT = append(argXT, pxt)
	}
	if sf.Body == nil || (g.hide != nil && g.hide(x.Fn)) {
		var sorts, terms []string
		for i, v := range argVals {
			s, ok := v.(string)
			if !ok {
				return nil, XT{}, e.errf("%s: composite argument to uninterpreted function", x.Fn)
			}
			sorts = append(sorts, argXT[i].S)
			terms = append(terms, s)
		}
		fname := "u_" + sanitize(x.Fn)
		if len(terms) == 0 {
			g.c.declareConst(fname, resXT.S)
			return fname, resXT, nil
		}
		g.c.declareFun(fname, sorts, resXT.S)
		return app(fname, terms...), resXT, nil
	}
	if e.depth > 40 {
		return nil, XT{}, e.errf("spec function expansion too deep (recursive?) at %s", x.Fn)
	}
	if g.pureSpec(sf) {
		// a state-independent spec function becomes an SMT define-fun, applied by name
		fname := "d_" + sanitize(x.Fn)
		if !g.c.declared[fname] {
			g.c.declared[fname] = true
			n := &env{g: g, vars: map[string]binding{}, st: &State{m: map[string]string{}}, old: &State{m: map[string]string{}}, pkgPath: sf.PkgPath, imports: sf.Imports, depth: e.depth + 1}
			var ps []string
			for i, p := range sf.Params {
				pn := fmt.Sprintf("a_%s", p.Name)
				n.vars[p.Name] = binding{pn, argXT[i]}
				ps = append(ps, "("+pn+" "+argXT[i].S+")")
			}
			bv, bxt, err := n.tr(sf.Body)
			if err != nil {
				return nil, XT{}, fmt.Errorf("in %s: %v", x.Fn, err)
			}
			bs, ok := bv.(string)
			if !ok {
				return nil, XT{}, e.errf("%s: composite result", x.Fn)
			}
			if bxt.S == "NIL" {
				bs = zeroOfSort(resXT.S)
			} else if bxt.S != resXT.S {
				return nil, XT{}, e.errf("%s: body has sort %s, declared %s", x.Fn, bxt.S, resXT.S)
			}
			g.c.decls = append(g.c.decls, fmt.Sprintf("(define-fun %s (%s) %s %s)", fname, strings.Join(ps, " "), resXT.S, bs))
		}
		var terms []string
		for _, v := range argVals {
			s, ok := v.(string)
			if !ok {
				return nil, XT{}, e.errf("%s: composite argument", x.Fn)
			}
			terms = append(terms, s)
		}
		if len(terms) == 0 {
			return fname, resXT, nil
		}
		return app(fname, terms...), resXT, nil
	}
	n := &env{g: g, vars: map[string]binding{}, st: e.st, old: e.old, pkgPath: sf.PkgPath, imports: sf.Imports, depth: e.depth + 1, facts: e.facts, inQ: e.inQ}
	for i, p := range sf.Params {
		n.vars[p.Name] = binding{argVals[i], argXT[i]}
	}
	v, xt, err := n.tr(sf.Body)
	if err != nil {
		return nil, XT{}, fmt.Errorf("in %s: %v", x.Fn, err)
	}
	if xt.S == "NIL" {
		v, xt = zeroOfSort(resXT.S), resXT
	}
	if xt.S != resXT.S {
		return nil, XT{}, e.errf("%s: body has sort %s, declared %s", x.Fn, xt.S, resXT.S)
	}
	return v, resXT, nil
}

// trAddr: the address of an embedded struct-valued field "p.f" (p a pointer to a struct).
func (e *env) trAddr(x Expr) (string, types.Type, bool) {
	sel, ok := x.(*ESel)
	if !ok {
		return "", nil, false
	}
	bv, bxt, err := e.tr(sel.X)
	if err != nil {
		return "", nil, false
	}
	st, ok := derefStruct(bxt.T)
	if !ok {
		return "", nil, false
	}
	s, _ := isStruct(st)
	for i := 0; i < s.NumFields(); i++ {
		if s.Field(i).Name() == sel.Sel {
			if _, isS := isStruct(s.Field(i).Type()); isS {
				return app("fld", bv.(string), fmt.Sprint(i)), s.Field(i).Type(), true
			}
		}
	}
	return "", nil, false
}

// pureSpec: the body of the spec function does not read the heap, ghost state or snapshots.
func (g *gen) pureSpec(sf *SpecFunc) bool {
	if v, ok := g.pureCache[sf]; ok {
		return v
	}
	g.pureCache[sf] = false // cycles are impure
	params := map[string]bool{}
	for _, p := range sf.Params {
		params[p.Name] = true
		// pointer / slice / interface typed parameters imply heap reads through them
		if p.Type.Kind == "ptr" || p.Type.Kind == "slice" {
			return false
		}
	}
	stateful := map[string]bool{"contents": true, "contentsN": true, "held": true, "rheld": true, "anyheld": true, "nolocks": true, "fresh": true,
		"allocated": true, "allocatedBefore": true, "deref": true, "has": true, "box": true, "reMatchLit": true, "elemaddr": true}
	var ok func(x Expr, bound map[string]bool) bool
	ok = func(x Expr, bound map[string]bool) bool {
		switch x := x.(type) {
		case *EInt, *EStr, *EBool, *ENil:
			return true
		case *EIdent:
			return params[x.Name] || bound[x.Name]
		case *ESel, *EOld, *EAt:
			return false
		case *EIndex:
			return ok(x.X, bound) && ok(x.I, bound)
		case *EUn:
			return ok(x.X, bound)
		case *EBin:
			return ok(x.L, bound) && ok(x.R, bound)
		case *EIte:
			return ok(x.C, bound) && ok(x.A, bound) && ok(x.B, bound)
		case *EQuant:
			nb := map[string]bool{}
			for k := range bound {
				nb[k] = true
			}
			for _, v := range x.Vars {
				nb[v.Name] = true
			}
			return ok(x.Body, nb)
		case *ECall:
			if stateful[x.Fn] {
				return false
			}
			if callee := g.P.spec.Preds[x.Fn]; callee != nil && callee.Body != nil && !g.pureSpec(callee) {
				return false
			}
			for _, a := range x.Args {
				if !ok(a, bound) {
					return false
				}
			}
			return true
		}
		return false
	}
	r := ok(sf.Body, map[string]bool{})
	g.pureCache[sf] = r
	return r
}
