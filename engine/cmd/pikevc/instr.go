package main

// Semantics of individual SSA instructions.

import (
	"os"
	"fmt"
	"go/token"
	"go/types"
	"strings"

	"golang.org/x/tools/go/ssa"
)

func (g *gen) alloc(n *node, st *State) string {
	nx := g.svGet(st, "$nxt", "Int")
	g.svAssign(n, st, "$nxt", "Int", app("+", nx, "1"))
	return nx
}

func (g *gen) safety(n *node, kind, what string, pos token.Pos, term string) {
	base := kind
	if what != "" {
		base = kind + ":" + what
	}
	g.addObl(n, kind, base, what, g.pos(pos), term, true)
}

// fieldAccess describes a FieldAddr-based memory access.
type fieldAccess struct {
	base    string
	structT types.Type
	idx     int
	field   *types.Var
}

func (g *gen) fieldAccessOf(fr *frame, addr ssa.Value) *fieldAccess {
	fa, ok := addr.(*ssa.FieldAddr)
	if !ok {
		return nil
	}
	pt, ok := fa.X.Type().Underlying().(*types.Pointer)
	if !ok {
		return nil
	}
	s, ok := isStruct(pt.Elem())
	if !ok {
		return nil
	}
	return &fieldAccess{base: g.sval(fr, fa.X), structT: pt.Elem(), idx: fa.Field, field: s.Field(fa.Field)}
}

func (g *gen) isFreshHere(ref string) string {
	nx := g.c.declareConst("$nxt@init", "Int")
	return and(app("(_ is obj)", ref), app(">=", app("oid", ref), nx))
}

// guardCond returns the condition under which a guarded field may be accessed, or "".
func (g *gen) guardCond(st *State, fa *fieldAccess, write bool) (string, string) {
	sk, ok := namedStructKey(fa.structT)
	if !ok {
		return "", ""
	}
	lockField, ok := g.P.spec.Guarded[sk+"."+fa.field.Name()]
	if !ok {
		return "", ""
	}
	s, _ := isStruct(fa.structT)
	var lt types.Type
	for i := 0; i < s.NumFields(); i++ {
		if s.Field(i).Name() == lockField {
			lt = s.Field(i).Type()
		}
	}
	if lt == nil {
		return "", ""
	}
	lm := g.svGet(st, fieldMapName(fa.structT, lockField), "(Array Ref "+sortOf(lt)+")")
	held := app("select", g.svGet(st, "$held", "(Array Ref Int)"), app("select", lm, fa.base))
	var c string
	if write {
		c = app("=", held, "1")
	} else {
		c = not(app("=", held, "0"))
	}
	return or(c, g.isFreshHere(fa.base)), lockField
}

func (g *gen) load(fr *frame, n *node, st *State, addr ssa.Value, pos token.Pos) Val {
	pt := addr.Type().Underlying().(*types.Pointer)
	if fa := g.fieldAccessOf(fr, addr); fa != nil {
		var v Val
		if _, ok := isStruct(fa.field.Type()); ok {
			v = g.loadAt(st, app("fld", fa.base, fmt.Sprint(fa.idx)), fa.field.Type())
		} else if _, ok := fa.field.Type().Underlying().(*types.Array); ok {
			v = "0"
		} else if lv, ok := g.localCell[fa.base+"#"+fa.field.Name()]; ok {
			v = g.svGet(st, lv, sortOf(fa.field.Type()))
		} else {
			m := g.svGet(st, fieldMapName(fa.structT, fa.field.Name()), "(Array Ref "+sortOf(fa.field.Type())+")")
			v = app("select", m, fa.base)
		}
		if gc, _ := g.guardCond(st, fa, false); gc != "" {
			g.safety(n, "guard", fa.field.Name(), pos, gc)
			if s, ok := v.(string); ok {
				// an unsynchronised read may observe anything
				fv := g.c.fresh("racy."+fa.field.Name(), sortOf(fa.field.Type()))
				ld := g.c.fresh("ld."+fa.field.Name(), sortOf(fa.field.Type()))
				n.assume(app("=", ld, app("ite", gc, s, fv)))
				v = ld
			}
		}
		for _, a := range valTypeInv(g, v, fa.field.Type(), st) {
			n.assume(a)
		}
		return v
	}
	if gl, ok := addr.(*ssa.Global); ok {
		key := gl.Pkg.Pkg.Path() + "." + gl.Name()
		v := g.loadGlobal(st, key, pt.Elem())
		return v
	}
	if fv, ok := addr.(*ssa.FreeVar); ok && finalFreeVar(fv) {
		if v, ok := g.finalVals[fv]; ok {
			return v
		}
	}
	ref := g.sval(fr, addr)
	switch addr.(type) {
	case *ssa.Alloc, *ssa.IndexAddr, *ssa.FieldAddr:
	default:
		g.safety(n, "nil", "", pos, not(app("=", ref, "null")))
	}
	v := g.loadAt(st, ref, pt.Elem())
	for _, a := range valTypeInv(g, v, pt.Elem(), st) {
		n.assume(a)
	}
	return v
}

func (g *gen) store(fr *frame, n *node, st *State, addr ssa.Value, val Val, pos token.Pos) {
	pt := addr.Type().Underlying().(*types.Pointer)
	if fa := g.fieldAccessOf(fr, addr); fa != nil {
		sk, named := namedStructKey(fa.structT)
		if gc, _ := g.guardCond(st, fa, true); gc != "" {
			g.safety(n, "guard", fa.field.Name(), pos, gc)
		}
		if named && g.P.spec.Immutable[sk+"."+fa.field.Name()] {
			g.safety(n, "immutable", fa.field.Name(), pos, g.isFreshHere(fa.base))
		}
		if named && g.P.spec.Confined[sk] {
			if _, local := g.localCell[fa.base+"#"+fa.field.Name()]; !local {
				ow := g.svGet(st, "$owns", "(Array Ref Int)")
				g.safety(n, "confined", fa.field.Name(), pos, app("=", app("select", ow, fa.base), "1"))
			}
		}
		if named && os.Getenv("PIKEVC_SURVEY") != "" {
			cls := "unclassified"
			if _, ok := g.P.spec.Guarded[sk+"."+fa.field.Name()]; ok {
				cls = "guarded"
			} else if g.P.spec.Immutable[sk+"."+fa.field.Name()] {
				cls = "immutable"
			} else if g.P.spec.Confined[sk] {
				cls = "confined"
			}
			fmt.Fprintf(os.Stderr, "SURVEY store %s %s.%s %s at %s\n", g.name, shortKey(sk), fa.field.Name(), cls, g.pos(pos))
		}
		if named {
			if hk := g.P.spec.Hooks[sk+"."+fa.field.Name()]; hk != nil {
				g.runHook(n, st, hk, fa, val, pos)
			}
		}
		if _, ok := isStruct(fa.field.Type()); ok {
			g.storeAt(n, st, app("fld", fa.base, fmt.Sprint(fa.idx)), fa.field.Type(), val)
			return
		}
		if _, ok := fa.field.Type().Underlying().(*types.Array); ok {
			return
		}
		if lv, ok := g.localCell[fa.base+"#"+fa.field.Name()]; ok {
			g.svSet(st, lv, sortOf(fa.field.Type()), val.(string))
			return
		}
		name := fieldMapName(fa.structT, fa.field.Name())
		srt := "(Array Ref " + sortOf(fa.field.Type()) + ")"
		m := g.svGet(st, name, srt)
		g.svAssign(n, st, name, srt, app("store", m, fa.base, val.(string)))
		return
	}
	if gl, ok := addr.(*ssa.Global); ok {
		key := gl.Pkg.Pkg.Path() + "." + gl.Name()
		if !g.isMutableGlobal(key) {
			g.errorf("%s: store to global %s that was classified immutable", g.name, key)
		}
	}
	ref := g.sval(fr, addr)
	switch addr.(type) {
	case *ssa.Alloc, *ssa.IndexAddr, *ssa.Global:
	default:
		g.safety(n, "nil", "", pos, not(app("=", ref, "null")))
	}
	if _, ok := addr.(*ssa.IndexAddr); ok {
		for _, ic := range g.P.spec.ImmutableCells {
			if name, _, ok := g.cellsVar(ic.Loc, ic.PkgPath, ic.Imports); ok && name == cellMapName(pt.Elem()) {
				g.safety(n, "immutable", "cells", pos, app(">=", app("rootid", ref), g.c.declareConst("$nxt@init", "Int")))
			}
		}
	}
	if ia, ok := addr.(*ssa.IndexAddr); ok && g.c.strMode {
		if sl, ok := ia.X.Type().Underlying().(*types.Slice); ok && isByte(sl.Elem()) {
			s := g.sval(fr, ia.X)
			pos := app("+", app("soff", s), g.sval(fr, ia.Index))
			g.spliceBytes(n, st, app("sbase", s), pos, "1", app("str.from_code", val.(string)))
			return
		}
	}
	if ia, ok := addr.(*ssa.IndexAddr); ok && !g.c.strMode {
		if sl, ok := ia.X.Type().Underlying().(*types.Slice); ok {
			if b, ok := sl.Elem().Underlying().(*types.Basic); ok && b.Kind() == types.Uint8 {
				// element-wise write into a byte slice: its abstract contents become unknown
				m := g.svGet(st, "$bytes", "(Array Int Bytes)")
				g.svAssign(n, st, "$bytes", "(Array Int Bytes)", app("store", m, app("sbase", g.sval(fr, ia.X)), g.c.fresh("bytes", "Bytes")))
			}
		}
	}
	g.storeAt(n, st, ref, pt.Elem(), val)
}

func (g *gen) runHook(n *node, st *State, hk *WriteHook, fa *fieldAccess, val Val, pos token.Pos) {
	m := g.svGet(st, fieldMapName(fa.structT, fa.field.Name()), "(Array Ref "+sortOf(fa.field.Type())+")")
	e := &env{g: g, vars: map[string]binding{}, st: st, old: st, pkgPath: hk.PkgPath, imports: hk.Imports}
	e.vars[hk.X] = binding{fa.base, xtOf(types.NewPointer(fa.structT))}
	e.vars[hk.Old] = binding{app("select", m, fa.base), xtOf(fa.field.Type())}
	e.vars[hk.New] = binding{val, xtOf(fa.field.Type())}
	for _, c := range hk.Asserts {
		t, err := e.trAssert(c.E)
		if err != nil {
			g.errorf("hook %s.%s [%s]: %v", hk.Type, hk.Field, c.Label, err)
			continue
		}
		g.addObl(n, "hook", "hook:"+hk.Field+":"+c.Label, c.Src, g.pos(pos), t, false)
	}
	for _, u := range hk.Updates {
		ix, ok := u.Target.(*EIndex)
		id, ok2 := u.Target.(*EIdent)
		var name string
		var key Expr
		if ok {
			if b, ok := ix.X.(*EIdent); ok {
				name, key = b.Name, ix.I
			}
		} else if ok2 {
			name = id.Name
		}
		gd := g.P.spec.GhostVars[name]
		if gd == nil {
			g.errorf("hook %s.%s: update target must be a ghost variable: %s", hk.Type, hk.Field, u.Src)
			continue
		}
		xt, err := g.resolveType(gd.Type, gd.PkgPath, gd.Imports)
		if err != nil {
			g.errorf("hook: %v", err)
			continue
		}
		v, _, err := e.tr(u.Value)
		if err != nil {
			g.errorf("hook %s.%s update: %v", hk.Type, hk.Field, err)
			continue
		}
		cur := g.svGet(st, name, xt.S)
		if key != nil {
			k, _, err := e.tr(key)
			if err != nil {
				g.errorf("hook update key: %v", err)
				continue
			}
			g.svAssign(n, st, name, xt.S, app("store", cur, k.(string), v.(string)))
		} else {
			g.svAssign(n, st, name, xt.S, v.(string))
		}
	}
}

func (g *gen) execInstr(fr *frame, cur *node, st *State, ins ssa.Instruction) *node {
	switch x := ins.(type) {
	case *ssa.Alloc:
		id := g.alloc(cur, st)
		ref := app("obj", id)
		fr.vals[x] = ref
		el := x.Type().Underlying().(*types.Pointer).Elem()
		if _, isArr := el.Underlying().(*types.Array); !isArr && nonEscaping(x) {
			g.registerLocal(ref, el, "L."+fr.fn.Name()+"."+x.Name())
		}
		if _, isArr := el.Underlying().(*types.Array); !isArr {
			g.storeAt(cur, st, ref, el, g.zeroVal(el))
		}
		g.zeroGhostFields(cur, st, ref, el)
		if sk, ok := namedStructKey(el); ok && g.P.spec.Confined[sk] {
			// a new object of a confined type belongs to the goroutine that allocated it
			ow := g.svGet(st, "$owns", "(Array Ref Int)")
			g.svAssign(cur, st, "$owns", "(Array Ref Int)", app("store", ow, ref, "1"))
		}
	case *ssa.FieldAddr:
		base := g.sval(fr, x.X)
		if _, ok := x.X.(*ssa.Alloc); !ok {
			g.safety(cur, "nil", "", x.Pos(), not(app("=", base, "null")))
		}
		fr.vals[x] = app("fld", base, fmt.Sprint(x.Field))
		if fa := g.fieldAccessOf(fr, x); fa != nil {
			g.fieldRefs[fr.vals[x].(string)] = fa
		}
	case *ssa.Field:
		sv, ok := g.val(fr, x.X).(*SV)
		if !ok {
			g.errorf("%s: Field on non-struct value", g.name)
			fr.vals[x], _ = g.freshVal("field", x.Type(), nil)
		} else {
			fr.vals[x] = sv.F[x.Field]
		}
	case *ssa.IndexAddr:
		idx := g.sval(fr, x.Index)
		switch t := x.X.Type().Underlying().(type) {
		case *types.Slice:
			s := g.sval(fr, x.X)
			g.safety(cur, "bounds", "", x.Pos(), and(app("<=", "0", idx), app("<", idx, app("slen", s))))
			fr.vals[x] = app("eref", s, idx)
		case *types.Pointer:
			arr, ok := t.Elem().Underlying().(*types.Array)
			if !ok {
				g.errorf("%s: IndexAddr on %s", g.name, t)
				break
			}
			p := g.sval(fr, x.X)
			g.safety(cur, "bounds", "", x.Pos(), and(app("<=", "0", idx), app("<", idx, fmt.Sprint(arr.Len()))))
			fr.vals[x] = app("elem", app("oid", p), idx)
		default:
			g.errorf("%s: IndexAddr on %s", g.name, x.X.Type())
		}
	case *ssa.UnOp:
		cur = g.execUnOp(fr, cur, st, x)
	case *ssa.BinOp:
		g.execBinOp(fr, cur, st, x)
	case *ssa.Store:
		g.store(fr, cur, st, x.Addr, g.val(fr, x.Val), x.Pos())
	case *ssa.Convert:
		g.execConvert(fr, cur, st, x)
	case *ssa.ChangeType:
		fr.vals[x] = g.val(fr, x.X)
	case *ssa.ChangeInterface:
		fr.vals[x] = g.val(fr, x.X)
	case *ssa.MakeInterface:
		fr.vals[x] = g.makeIface(cur, x.X.Type(), g.val(fr, x.X))
	case *ssa.TypeAssert:
		g.execTypeAssert(fr, cur, st, x)
	case *ssa.Extract:
		tv, ok := g.val(fr, x.Tuple).(*TV)
		if !ok || x.Index >= len(tv.E) {
			g.errorf("%s: extract from non-tuple", g.name)
			fr.vals[x], _ = g.freshVal("extract", x.Type(), nil)
		} else {
			fr.vals[x] = tv.E[x.Index]
		}
	case *ssa.MakeSlice:
		ln := g.sval(fr, x.Len)
		cp := g.sval(fr, x.Cap)
		g.safety(cur, "makeslice", "", x.Pos(), and(app("<=", "0", ln), app("<=", ln, cp)))
		if g.fs != nil && g.fs.BoundedAlloc {
			esz := types.SizesFor("gc", "amd64").Sizeof(x.Type().Underlying().(*types.Slice).Elem())
			g.addObl(cur, "alloc", "alloc:make", "allocation size is a constant (<= 64 bytes), not a value read from the input", g.pos(x.Pos()),
				app("<=", app("*", fmt.Sprint(esz), cp), "64"), true)
		}
		id := g.alloc(cur, st)
		s := app("mkslice", id, "0", ln, cp)
		fr.vals[x] = s
		el := x.Type().Underlying().(*types.Slice).Elem()
		if g.c.strMode && isByte(el) {
			nb := g.c.fresh("newbytes", "Bytes")
			cur.assume(app("=", app("str.len", nb), cp))
			m := g.svGet(st, "$bytes", "(Array Int Bytes)")
			g.svAssign(cur, st, "$bytes", "(Array Int Bytes)", app("store", m, id, nb))
		} else {
			g.zeroInitElems(cur, st, id, el)
		}
	case *ssa.MakeChan:
		fr.vals[x] = app("obj", g.alloc(cur, st))
	case *ssa.MakeMap:
		fr.vals[x] = app("obj", g.alloc(cur, st))
		g.mapInitEmpty(cur, st, fr.vals[x].(string), x.Type())
	case *ssa.MakeClosure:
		fr.vals[x] = app("obj", g.alloc(cur, st))
		fr.closures[x] = x
		g.closurePurity(fr, cur, st, x)
		g.captureRequires(fr, cur, st, x)
	case *ssa.Slice:
		g.execSlice(fr, cur, st, x)
	case *ssa.Call:
		var res Val
		res, cur = g.execCall(fr, cur, st, x.Common(), x.Pos(), x)
		if x.Type() != nil {
			if tp, ok := x.Type().(*types.Tuple); ok && tp.Len() == 0 {
				break
			}
			fr.vals[x] = res
		}
	case *ssa.Defer:
		if !fr.top {
			g.errorf("%s: defer inside an inlined closure is outside the subset", g.name)
			break
		}
		if _, inLoop := g.inAnyLoop(fr, x.Block()); inLoop {
			g.errorf("%s: defer inside a loop is outside the subset", g.name)
		}
		k := g.deferIdx[x]
		g.svSet(st, fmt.Sprintf("$defer.%d", k), "Bool", "true")
	case *ssa.RunDefers:
		cur = g.runDefers(fr, cur, st, x.Block(), false)
	case *ssa.Send:
		ch := g.sval(fr, x.Chan)
		g.safety(cur, "nil", "", x.Pos(), not(app("=", ch, "null")))
		m := g.svGet(st, "$sent", "(Array Ref Int)")
		g.svAssign(cur, st, "$sent", "(Array Ref Int)", app("store", m, ch, app("+", app("select", m, ch), "1")))
		g.svAssign(cur, st, "$sent_total", "Int", app("+", g.svGet(st, "$sent_total", "Int"), "1"))
	case *ssa.Go:
		// spawn: the callee's precondition must hold now; what it modifies may change at any time from
		// here on, and nothing it ensures may be relied on by the spawner - except clauses labelled
		// [spawn...], which speak about the goroutine having been started
		g.spawning = true
		_, cur = g.execCall(fr, cur, st, x.Common(), x.Pos(), nil)
		g.spawning = false
	case *ssa.Lookup:
		g.execLookup(fr, cur, st, x)
	case *ssa.MapUpdate:
		g.execMapUpdate(fr, cur, st, x)
	case *ssa.Range:
		g.execRange(fr, cur, st, x)
	case *ssa.Next:
		g.execNext(fr, cur, st, x)
	case *ssa.Index:
		g.errorf("%s: Index on array values is outside the subset", g.name)
		fr.vals[x], _ = g.freshVal("index", x.Type(), nil)
	case *ssa.Select:
		g.errorf("%s: select is outside the subset", g.name)
	default:
		g.errorf("%s: unsupported instruction %T", g.name, ins)
		if v, ok := ins.(ssa.Value); ok {
			fr.vals[v], _ = g.freshVal("unsupported", v.Type(), nil)
		}
	}
	return cur
}

func (g *gen) inAnyLoop(fr *frame, b *ssa.BasicBlock) (*ssa.BasicBlock, bool) {
	for h, body := range fr.li.body {
		if body[b] {
			return h, true
		}
	}
	return nil, false
}

func (g *gen) zeroInitElems(n *node, st *State, baseID string, el types.Type) {
	if _, ok := isStruct(el); ok {
		return // field maps of fresh element refs are left unconstrained (sound)
	}
	if _, ok := el.Underlying().(*types.Array); ok {
		return
	}
	name := cellMapName(el)
	srt := "(Array Ref " + sortOf(el) + ")"
	m := g.svGet(st, name, srt)
	z := zeroOfSort(sortOf(el))
	if z == "" {
		return
	}
	q := fmt.Sprintf("(forall ((zi Int)) (! (= (select %s (elem %s zi)) %s) :pattern ((select %s (elem %s zi)))))", m, baseID, z, m, baseID)
	n.assume(q)
}

func (g *gen) execUnOp(fr *frame, cur *node, st *State, x *ssa.UnOp) *node {
	switch x.Op {
	case token.MUL:
		fr.vals[x] = g.load(fr, cur, st, x.X, x.Pos())
	case token.NOT:
		fr.vals[x] = not(g.sval(fr, x.X))
	case token.SUB:
		v := g.sval(fr, x.X)
		if sortOf(x.Type()) == "Real" {
			fr.vals[x] = app("-", v)
		} else {
			_, w := intRange(x.Type())
			fr.vals[x] = wrapIf(w, app("-", v))
		}
	case token.ARROW:
		ch := g.sval(fr, x.X)
		m := g.svGet(st, "$recv", "(Array Ref Int)")
		g.svAssign(cur, st, "$recv", "(Array Ref Int)", app("store", m, ch, app("+", app("select", m, ch), "1")))
		g.svAssign(cur, st, "$recv_total", "Int", app("+", g.svGet(st, "$recv_total", "Int"), "1"))
		// a blocking receive lets other goroutines run: nothing about unlocked shared state survives,
		// which is already the case (guarded reads need the lock)
		el := x.X.Type().Underlying().(*types.Chan).Elem()
		if x.CommaOk {
			v, _ := g.freshVal("recv", el, st)
			fr.vals[x] = &TV{E: []Val{v, g.c.fresh("recvok", "Bool")}}
		} else {
			fr.vals[x], _ = g.freshVal("recv", el, st)
		}
	case token.XOR:
		fr.vals[x] = g.c.fresh("bitnot", "Int")
		if in, _ := intRange(x.Type()); in != "" {
			cur.assume(app(in, fr.vals[x].(string)))
		}
	default:
		g.errorf("%s: unsupported unary operator %s", g.name, x.Op)
	}
	return cur
}

func wrapIf(w, t string) string {
	if w == "" {
		return t
	}
	return app(w, t)
}

func (g *gen) execBinOp(fr *frame, cur *node, st *State, x *ssa.BinOp) {
	a, b := g.val(fr, x.X), g.val(fr, x.Y)
	as, aok := a.(string)
	bs, bok := b.(string)
	if !aok || !bok {
		// struct comparison
		if x.Op == token.EQL || x.Op == token.NEQ {
			t := and(eqVals(a, b)...)
			if x.Op == token.NEQ {
				t = not(t)
			}
			fr.vals[x] = t
			return
		}
		g.errorf("%s: binary operator %s on composite values", g.name, x.Op)
		fr.vals[x] = "false"
		return
	}
	xt := x.X.Type()
	srt := sortOf(xt)
	_, w := intRange(x.Type())
	switch x.Op {
	case token.EQL:
		fr.vals[x] = app("=", as, bs)
	case token.NEQ:
		fr.vals[x] = not(app("=", as, bs))
	case token.LSS, token.LEQ, token.GTR, token.GEQ:
		op := map[token.Token]string{token.LSS: "<", token.LEQ: "<=", token.GTR: ">", token.GEQ: ">="}[x.Op]
		if srt == "Str" {
			g.c.declareFun("strlt", []string{"Str", "Str"}, "Bool")
			switch x.Op {
			case token.LSS:
				fr.vals[x] = app("strlt", as, bs)
			case token.GTR:
				fr.vals[x] = app("strlt", bs, as)
			case token.LEQ:
				fr.vals[x] = not(app("strlt", bs, as))
			default:
				fr.vals[x] = not(app("strlt", as, bs))
			}
		} else {
			fr.vals[x] = app(op, as, bs)
		}
	case token.ADD:
		if srt == "Str" {
			fr.vals[x] = app("strcat", as, bs)
		} else if srt == "Real" {
			fr.vals[x] = app("+", as, bs)
		} else if g.c.strMode {
			// string-theory mode keeps integer arithmetic linear: overflow is an obligation, not modelled
			if in, _ := intRange(x.Type()); in != "" {
				g.safety(cur, "overflow", "", x.Pos(), app(in, app("+", as, bs)))
			}
			fr.vals[x] = app("+", as, bs)
		} else {
			fr.vals[x] = wrapIf(w, app("+", as, bs))
		}
	case token.SUB:
		if srt == "Real" {
			fr.vals[x] = app("-", as, bs)
		} else {
			fr.vals[x] = wrapIf(w, app("-", as, bs))
		}
	case token.MUL:
		if srt == "Real" {
			fr.vals[x] = app("*", as, bs)
		} else {
			fr.vals[x] = wrapIf(w, app("*", as, bs))
		}
	case token.QUO:
		if srt == "Real" {
			fr.vals[x] = app("/", as, bs)
		} else {
			g.safety(cur, "div0", "", x.Pos(), not(app("=", bs, "0")))
			fr.vals[x] = wrapIf(w, app("godiv", as, bs))
		}
	case token.REM:
		g.safety(cur, "div0", "", x.Pos(), not(app("=", bs, "0")))
		fr.vals[x] = wrapIf(w, app("gomod", as, bs))
	case token.AND, token.OR, token.XOR, token.SHL, token.SHR, token.AND_NOT:
		if srt == "Bool" {
			switch x.Op {
			case token.AND:
				fr.vals[x] = and(as, bs)
			case token.OR:
				fr.vals[x] = or(as, bs)
			default:
				fr.vals[x] = app("xor", as, bs)
			}
			return
		}
		fn := map[token.Token]string{token.AND: "bitand", token.OR: "bitor", token.XOR: "bitxor", token.SHL: "bitshl", token.SHR: "bitshr", token.AND_NOT: "bitandnot"}[x.Op]
		g.c.declareFun(fn, []string{"Int", "Int"}, "Int")
		fr.vals[x] = wrapIf(w, app(fn, as, bs))
	default:
		g.errorf("%s: unsupported binary operator %s", g.name, x.Op)
		fr.vals[x] = g.c.fresh("binop", sortOf(x.Type()))
	}
}

func (g *gen) execConvert(fr *frame, cur *node, st *State, x *ssa.Convert) {
	from, to := sortOf(x.X.Type()), sortOf(x.Type())
	v := g.val(fr, x.X)
	switch {
	case from == "Int" && to == "Int":
		_, w := intRange(x.Type())
		fr.vals[x] = wrapIf(w, v.(string))
	case from == "Int" && to == "Real":
		fr.vals[x] = app("to_real", v.(string))
	case from == "Real" && to == "Int":
		// truncation toward zero of an in-range value; out-of-range is implementation-defined
		r := g.c.fresh("f2i", "Int")
		if in, _ := intRange(x.Type()); in != "" {
			cur.assume(app(in, r))
		}
		g.c.declareFun("f2i", []string{"Real"}, "Int")
		cur.assume(app("=", r, app("f2i", v.(string))))
		fr.vals[x] = r
	case from == "Real" && to == "Real":
		fr.vals[x] = v
	case from == "Slice" && to == "Str":
		// string(b): depends on the contents of b now
		fr.vals[x] = g.bytesToStr(cur, st, v.(string))
	case from == "Str" && to == "Slice":
		fr.vals[x] = g.strToBytes(cur, st, v.(string))
	case from == "Int" && to == "Str":
		g.c.declareFun("rune2str", []string{"Int"}, "Str")
		fr.vals[x] = app("rune2str", v.(string))
	case from == to:
		fr.vals[x] = v
	default:
		g.errorf("%s: unsupported conversion %s -> %s", g.name, x.X.Type(), x.Type())
		fr.vals[x], _ = g.freshVal("conv", x.Type(), nil)
	}
}

// Byte slices as values: ghost contents map $bytes: base -> Bytes for whole backing arrays
// that were produced by a libspec function; string(b)/[]byte(s) go through b2s/s2b.
func (g *gen) bytesToStr(n *node, st *State, s string) string {
	g.c.declareSort("Bytes")
	g.c.declareFun("b2s", []string{"Bytes"}, "Str")
	return app("b2s", g.bytesOf(st, s))
}

func (g *gen) bytesOf(st *State, s string) string {
	g.c.declareSort("Bytes")
	g.c.declareFun("bsub", []string{"Bytes", "Int", "Int"}, "Bytes")
	m := g.svGet(st, "$bytes", "(Array Int Bytes)")
	return app("bsub", app("select", m, app("sbase", s)), app("soff", s), app("slen", s))
}

func (g *gen) strToBytes(n *node, st *State, s string) string {
	g.c.declareSort("Bytes")
	g.c.declareFun("s2b", []string{"Str"}, "Bytes")
	g.c.declareFun("u_blen", []string{"Bytes"}, "Int")
	id := g.alloc(n, st)
	m := g.svGet(st, "$bytes", "(Array Int Bytes)")
	g.svAssign(n, st, "$bytes", "(Array Int Bytes)", app("store", m, id, app("s2b", s)))
	n.assume(app("=", app("u_blen", app("s2b", s)), app("strlen", s)))
	// string(([]byte)(s)) == s
	g.c.declareFun("b2s", []string{"Bytes"}, "Str")
	n.assume(app("=", app("b2s", app("s2b", s)), s))
	return app("mkslice", id, "0", app("strlen", s), app("strlen", s))
}

func (g *gen) execTypeAssert(fr *frame, cur *node, st *State, x *ssa.TypeAssert) {
	iv := g.sval(fr, x.X)
	at := x.AssertedType
	var ok string
	var val Val
	if _, isIface := at.Underlying().(*types.Interface); isIface {
		g.c.declareFun("implements", []string{"Int", "Int"}, "Bool")
		ok = and(not(app("=", iv, "inil")), app("implements", app("itag", iv), fmt.Sprint(g.c.typeTag(at))))
		val = iv
	} else if _, isS := isStruct(at); isS {
		ok = app("=", app("itag", iv), fmt.Sprint(g.c.typeTag(at)))
		val, _ = g.freshVal("unboxed", at, st)
	} else {
		mk, un := g.c.boxFn(sortOf(at))
		tag := fmt.Sprint(g.c.typeTag(at))
		ok = app("=", app("itag", iv), tag)
		val = app(un, iv)
		cur.assume(implies(ok, app("=", app(mk, tag, val.(string)), iv)))
		for _, a := range g.typeInv(val.(string), at, st) {
			cur.assume(implies(ok, a))
		}
	}
	if x.CommaOk {
		if s, isS := val.(string); isS {
			z := zeroOfSort(sortOf(at))
			if z != "" {
				val = app("ite", ok, s, z)
			}
		}
		fr.vals[x] = &TV{E: []Val{val, ok}}
		return
	}
	g.safety(cur, "typeassert", "", x.Pos(), ok)
	fr.vals[x] = val
}

func (g *gen) execSlice(fr *frame, cur *node, st *State, x *ssa.Slice) {
	lo := "0"
	if x.Low != nil {
		lo = g.sval(fr, x.Low)
	}
	switch t := x.X.Type().Underlying().(type) {
	case *types.Slice:
		s := g.sval(fr, x.X)
		hi := app("slen", s)
		if x.High != nil {
			hi = g.sval(fr, x.High)
		}
		g.safety(cur, "slicebounds", "", x.Pos(), and(app("<=", "0", lo), app("<=", lo, hi), app("<=", hi, app("scap", s))))
		r := g.c.fresh("slice", "Slice")
		cur.assume(app("=", r, app("mkslice", app("sbase", s), app("+", app("soff", s), lo), app("-", hi, lo), app("-", app("scap", s), lo))))
		fr.vals[x] = r
	case *types.Basic: // string
		s := g.sval(fr, x.X)
		hi := app("strlen", s)
		if x.High != nil {
			hi = g.sval(fr, x.High)
		}
		g.safety(cur, "slicebounds", "", x.Pos(), and(app("<=", "0", lo), app("<=", lo, hi), app("<=", hi, app("strlen", s))))
		if g.c.strMode {
			fr.vals[x] = app("str.substr", s, lo, app("-", hi, lo))
		} else {
			g.c.declareFun("substr", []string{"Str", "Int", "Int"}, "Str")
			r := app("substr", s, lo, hi)
			cur.assume(app("=", app("strlen", r), app("-", hi, lo)))
			fr.vals[x] = r
		}
	case *types.Pointer:
		arr, ok := t.Elem().Underlying().(*types.Array)
		if !ok {
			g.errorf("%s: slice of %s", g.name, t)
			return
		}
		p := g.sval(fr, x.X)
		n := fmt.Sprint(arr.Len())
		hi := n
		if x.High != nil {
			hi = g.sval(fr, x.High)
		}
		g.safety(cur, "slicebounds", "", x.Pos(), and(app("<=", "0", lo), app("<=", lo, hi), app("<=", hi, n)))
		fr.vals[x] = app("mkslice", app("oid", p), lo, app("-", hi, lo), app("-", n, lo))
	default:
		g.errorf("%s: slice of %s", g.name, x.X.Type())
	}
}

// ---- Go maps ----
// A map value is a Ref; contents live in M.<type> : Ref -> (Array K V) and MD.<type> : Ref -> (Array K Bool).

func mapVars(t types.Type) (string, string, string, string, *types.Map) {
	mt := t.Underlying().(*types.Map)
	k, v := sortOf(mt.Key()), sortOf(mt.Elem())
	key := typeKey(t.Underlying())
	return "M." + key, "(Array Ref (Array " + k + " " + v + "))", "MD." + key, "(Array Ref (Array " + k + " Bool))", mt
}

func (g *gen) mapInitEmpty(n *node, st *State, ref string, t types.Type) {
	mt, ok := t.Underlying().(*types.Map)
	if !ok {
		return
	}
	if sortOf(mt.Elem()) == "STRUCT" || sortOf(mt.Key()) == "STRUCT" {
		return
	}
	_, _, dn, ds, _ := mapVars(t)
	d := g.svGet(st, dn, ds)
	ks := sortOf(mt.Key())
	g.svAssign(n, st, dn, ds, app("store", d, ref, "((as const (Array "+ks+" Bool)) false)"))
}

func (g *gen) execLookup(fr *frame, cur *node, st *State, x *ssa.Lookup) {
	if _, isMap := x.X.Type().Underlying().(*types.Map); !isMap {
		// string index
		s := g.sval(fr, x.X)
		i := g.sval(fr, x.Index)
		g.safety(cur, "bounds", "", x.Pos(), and(app("<=", "0", i), app("<", i, app("strlen", s))))
		if g.c.strMode {
			fr.vals[x] = app("str.to_code", app("str.at", s, i))
		} else {
			g.c.declareFun("strat", []string{"Str", "Int"}, "Int")
			r := app("strat", s, i)
			cur.assume(app("inu8", r))
			fr.vals[x] = r
		}
		return
	}
	mt := x.X.Type().Underlying().(*types.Map)
	if sortOf(mt.Elem()) == "STRUCT" || sortOf(mt.Key()) == "STRUCT" {
		g.errorf("%s: map with struct key/value is outside the subset", g.name)
		fr.vals[x], _ = g.freshVal("lookup", x.Type(), nil)
		return
	}
	mn, ms, dn, ds, _ := mapVars(x.X.Type())
	m := g.sval(fr, x.X)
	k := g.sval(fr, x.Index)
	cont := app("select", app("select", g.svGet(st, mn, ms), m), k)
	dom := and(not(app("=", m, "null")), app("select", app("select", g.svGet(st, dn, ds), m), k))
	z := zeroOfSort(sortOf(mt.Elem()))
	v := app("ite", dom, cont, z)
	for _, a := range g.typeInv(cont, mt.Elem(), st) {
		cur.assume(a)
	}
	if x.CommaOk {
		fr.vals[x] = &TV{E: []Val{v, dom}}
	} else {
		fr.vals[x] = v
	}
}

func (g *gen) execMapUpdate(fr *frame, cur *node, st *State, x *ssa.MapUpdate) {
	mt := x.Map.Type().Underlying().(*types.Map)
	if sortOf(mt.Elem()) == "STRUCT" || sortOf(mt.Key()) == "STRUCT" {
		g.errorf("%s: map with struct key/value is outside the subset", g.name)
		return
	}
	mn, ms, dn, ds, _ := mapVars(x.Map.Type())
	m := g.sval(fr, x.Map)
	g.safety(cur, "nilmap", "", x.Pos(), not(app("=", m, "null")))
	k := g.sval(fr, x.Key)
	v := g.sval(fr, x.Value)
	mm := g.svGet(st, mn, ms)
	dd := g.svGet(st, dn, ds)
	g.svAssign(cur, st, mn, ms, app("store", mm, m, app("store", app("select", mm, m), k, v)))
	g.svAssign(cur, st, dn, ds, app("store", dd, m, app("store", app("select", dd, m), k, "true")))
}

// Range over a Go map: ghost key sequence mk[0..mn) — distinct, exactly the keys present when
// the loop started; midx[k] is the position of key k. The position is the state variable $it.<id>.
// In loop invariants: $mi (keys already handed out), $mn, $mk[j], $midx[k].
type iterInfo struct {
	id          int
	cnt, mk, ix string
	m           string
	isMap       bool
}

func (g *gen) execRange(fr *frame, cur *node, st *State, x *ssa.Range) {
	id := len(g.iters)
	if old, ok := g.iters[x]; ok {
		id = old.id
	}
	info := &iterInfo{id: id}
	g.iters[x] = info
	g.svSet(st, fmt.Sprintf("$it.%d", id), "Int", "0")
	mt, isMap := x.X.Type().Underlying().(*types.Map)
	info.isMap = isMap
	info.m = g.sval(fr, x.X)
	fr.vals[x] = &TV{E: []Val{fmt.Sprint(id), info.m}}
	if !isMap {
		return
	}
	if sortOf(mt.Elem()) == "STRUCT" || sortOf(mt.Key()) == "STRUCT" {
		g.errorf("%s: range over map with struct key/value is outside the subset", g.name)
		return
	}
	ks := sortOf(mt.Key())
	_, _, dn, ds, _ := mapVars(x.X.Type())
	info.cnt = g.c.fresh("mn", "Int")
	info.mk = g.c.fresh("mk", "(Array Int "+ks+")")
	info.ix = g.c.fresh("midx", "(Array "+ks+" Int)")
	dom := g.c.fresh("mdom0", "(Array "+ks+" Bool)")
	cur.assume(app("=", dom, app("ite", app("=", info.m, "null"), "((as const (Array "+ks+" Bool)) false)", app("select", g.svGet(st, dn, ds), info.m))))
	cur.assume(app(">=", info.cnt, "0"))
	cur.assume(fmt.Sprintf("(forall ((i Int)) (! (=> (and (<= 0 i) (< i %s)) (and (select %s (select %s i)) (= (select %s (select %s i)) i))) :pattern ((select %s i))))", info.cnt, dom, info.mk, info.ix, info.mk, info.mk))
	cur.assume(fmt.Sprintf("(forall ((k %s)) (! (=> (select %s k) (and (<= 0 (select %s k)) (< (select %s k) %s) (= (select %s (select %s k)) k))) :pattern ((select %s k))))", ks, dom, info.ix, info.ix, info.cnt, info.mk, info.ix, dom))
}

func (g *gen) execNext(fr *frame, cur *node, st *State, x *ssa.Next) {
	rg, ok := x.Iter.(*ssa.Range)
	if !ok {
		g.errorf("%s: Next on non-Range iterator", g.name)
		return
	}
	info := g.iters[rg]
	if info == nil {
		g.errorf("%s: Next before Range", g.name)
		return
	}
	pv := fmt.Sprintf("$it.%d", info.id)
	pos := g.svGet(st, pv, "Int")
	tup := x.Type().(*types.Tuple)
	if x.IsString {
		s := info.m
		okv := app("<", pos, app("strlen", s))
		np := g.c.fresh("strpos", "Int")
		cur.assume(implies(okv, and(app(">", np, pos), app("<=", np, app("strlen", s)))))
		g.svSet(st, pv, "Int", np)
		r, _ := g.freshVal("rune", tup.At(2).Type(), nil)
		fr.vals[x] = &TV{E: []Val{okv, pos, r}}
		return
	}
	if info.cnt == "" {
		fr.vals[x], _ = g.freshVal("next", x.Type(), nil)
		return
	}
	mt := rg.X.Type().Underlying().(*types.Map)
	mn, ms, _, _, _ := mapVars(rg.X.Type())
	okv := app("<", pos, info.cnt)
	key := app("select", info.mk, pos)
	val := app("select", app("select", g.svGet(st, mn, ms), info.m), key)
	cur.assume(and(app("<=", "0", pos), app("<=", pos, info.cnt)))
	for _, a := range g.typeInv(val, mt.Elem(), st) {
		cur.assume(a)
	}
	g.svAssign(cur, st, pv, "Int", app("ite", okv, app("+", pos, "1"), pos))
	fr.vals[x] = &TV{E: []Val{okv, key, val}}
}

// nonEscaping: the address of the allocation is only loaded from, stored to, indexed, or
// captured by closures that are themselves only called or deferred in place.
func nonEscaping(a *ssa.Alloc) bool {
	var ok func(v ssa.Value, depth int) bool
	ok = func(v ssa.Value, depth int) bool {
		if depth > 4 || v.Referrers() == nil {
			return false
		}
		for _, r := range *v.Referrers() {
			switch u := r.(type) {
			case *ssa.DebugRef:
			case *ssa.UnOp:
				if u.Op != token.MUL {
					return false
				}
			case *ssa.Store:
				if u.Val == v {
					return false
				}
			case *ssa.FieldAddr:
				if !ok(u, depth+1) {
					return false
				}
			case *ssa.IndexAddr:
				if !ok(u, depth+1) {
					return false
				}
			case *ssa.Slice:
				return false
			case *ssa.MakeClosure:
				// the closure value must only be called/deferred directly
				if u.Referrers() == nil {
					return false
				}
				for _, cr := range *u.Referrers() {
					switch c := cr.(type) {
					case *ssa.Defer:
						if c.Call.Value != u {
							return false
						}
					case *ssa.Call:
						if c.Call.Value != u {
							return false
						}
					case *ssa.DebugRef:
					default:
						return false
					}
				}
				// and inside the closure the free variable must not escape either
				fn := u.Fn.(*ssa.Function)
				for bi, b := range u.Bindings {
					if b == v {
						if !ok(fn.FreeVars[bi], depth+1) {
							return false
						}
					}
				}
			default:
				return false
			}
		}
		return true
	}
	return ok(a, 0)
}

// closurePurity: a closure whose contract is effectfree is a mathematical function of its
// arguments (and of the captured state at creation time): its ensures clauses, universally
// quantified over the parameters, become facts about apply<T>(closure, args).
// captureRequires: "requires [captured...]" clauses of a closure's contract speak about its captured
// variables only; they are assumed in the closure's own VC and proved here, where the closure is made.
func (g *gen) captureRequires(fr *frame, n *node, st *State, mc *ssa.MakeClosure) {
	fn := mc.Fn.(*ssa.Function)
	fs := g.P.spec.Funcs[funcKey(fn)]
	if fs == nil {
		return
	}
	var e *env
	for _, c := range fs.Requires {
		if !strings.HasPrefix(c.Label, "captured") {
			continue
		}
		if e == nil {
			e = &env{g: g, vars: map[string]binding{}, st: st, old: st, pkgPath: fs.PkgPath, imports: fs.Imports}
			for k, fv := range fn.FreeVars {
				e.vars[fv.Name()] = binding{g.val(fr, mc.Bindings[k]), xtOf(fv.Type())}
				if pt, ok := fv.Type().Underlying().(*types.Pointer); ok && finalFreeVar(fv) {
					if ref, ok := g.val(fr, mc.Bindings[k]).(string); ok {
						e.vars[fv.Name()] = binding{g.loadAt(st, ref, pt.Elem()), xtOf(pt.Elem())}
					}
				}
			}
		}
		t, err := e.trAssert(c.E)
		if err != nil {
			g.errorf("%s: closure %s requires [%s]: %v", g.name, fs.Key, c.Label, err)
			continue
		}
		g.addObl(n, "capture", "capture:"+shortKey(fs.Key)+":"+c.Label, c.Src, g.pos(mc.Pos()), t, false)
	}
}

func (g *gen) closurePurity(fr *frame, n *node, st *State, mc *ssa.MakeClosure) {
	fn := mc.Fn.(*ssa.Function)
	fs := g.P.spec.Funcs[funcKey(fn)]
	if fs == nil || !fs.Pure || fn.Signature.Results().Len() != 1 {
		return
	}
	rt := fn.Signature.Results().At(0).Type()
	var resName string
	switch sortOf(rt) {
	case "Bool":
		resName = "Bool"
	case "Int":
		resName = "Int"
	case "Str":
		resName = "Str"
	default:
		return
	}
	e := &env{g: g, vars: map[string]binding{}, st: st, old: st, pkgPath: fs.PkgPath, imports: fs.Imports}
	for i, fv := range fn.FreeVars {
		e.vars[fv.Name()] = binding{g.val(fr, mc.Bindings[i]), xtOf(fv.Type())}
		if pt, ok := fv.Type().Underlying().(*types.Pointer); ok && finalFreeVar(fv) {
			if ref, ok := g.val(fr, mc.Bindings[i]).(string); ok {
				e.vars[fv.Name()] = binding{g.loadAt(st, ref, pt.Elem()), xtOf(pt.Elem())}
			}
		}
	}
	var binds, sorts, terms []string
	self := fr.vals[mc].(string)
	sorts = append(sorts, "Ref")
	terms = append(terms, self)
	for i, p := range fs.Params {
		pt := fn.Signature.Params().At(i).Type()
		srt := sortOf(pt)
		if srt == "STRUCT" {
			return
		}
		name := fmt.Sprintf("cp_%s_%d", p.Name, g.c.counter)
		g.c.counter++
		binds = append(binds, "("+name+" "+srt+")")
		e.vars[p.Name] = binding{name, xtOf(pt)}
		sorts = append(sorts, srt)
		terms = append(terms, name)
	}
	apfn := "apply_" + sanitize(strings.Join(sorts[1:], "_")) + "_" + resName
	g.c.declareFun(apfn, sorts, resName)
	res := app(apfn, terms...)
	if len(fs.Results) == 1 {
		e.vars[fs.Results[0].Name] = binding{res, xtOf(rt)}
	}
	var pre, post []string
	for _, c := range fs.Requires {
		if t, err := e.trBool(c.E); err == nil {
			pre = append(pre, t)
		}
	}
	for _, c := range fs.Ensures {
		t, err := e.trBool(c.E)
		if err != nil {
			g.errorf("%s: closure %s ensures [%s]: %v", g.name, fs.Key, c.Label, err)
			return
		}
		post = append(post, t)
	}
	if len(post) == 0 {
		return
	}
	body := implies(and(pre...), and(post...))
	if len(binds) > 0 {
		body = "(forall (" + strings.Join(binds, " ") + ") (! " + body + " :pattern (" + res + ")))"
	}
	n.assume(body)
	g.used["verified:"+fs.Key] = true
}

// zeroGhostFields: a freshly allocated object starts with zero/empty ghost state.
func (g *gen) zeroGhostFields(n *node, st *State, ref string, t types.Type) {
	k, ok := namedStructKey(t)
	if !ok {
		return
	}
	for gk, gd := range g.P.spec.GhostFields {
		if !strings.HasPrefix(gk, k+".") || strings.Count(strings.TrimPrefix(gk, k+"."), ".") != 0 {
			continue
		}
		xt, err := g.resolveType(gd.Type, gd.PkgPath, gd.Imports)
		if err != nil {
			continue
		}
		var z string
		switch {
		case xt.K != nil && xt.E != nil && xt.E.S == "Bool":
			z = "((as const " + xt.S + ") false)"
		case xt.K != nil:
			continue // contents of an empty map are irrelevant
		case xt.S == "Bytes":
			z = g.c.declareConst("u_bempty", "Bytes")
		default:
			z = zeroOfSort(xt.S)
		}
		if z == "" {
			continue
		}
		name := ghostFieldMapName(t, strings.TrimPrefix(gk, k+"."))
		srt := "(Array Ref " + xt.S + ")"
		g.svAssign(n, st, name, srt, app("store", g.svGet(st, name, srt), ref, z))
	}
}

// finalFreeVar: the captured variable is assigned exactly once (its initialisation) in the
// enclosing function and never through any closure, so reading it always yields the same value.
func finalFreeVar(fv *ssa.FreeVar) bool {
	fn := fv.Parent()
	parent := fn.Parent()
	if parent == nil {
		return false
	}
	idx := -1
	for i, x := range fn.FreeVars {
		if x == fv {
			idx = i
		}
	}
	if idx < 0 {
		return false
	}
	var binding ssa.Value
	for _, b := range parent.Blocks {
		for _, in := range b.Instrs {
			if mc, ok := in.(*ssa.MakeClosure); ok && mc.Fn == fn {
				if binding != nil && binding != mc.Bindings[idx] {
					return false
				}
				binding = mc.Bindings[idx]
			}
		}
	}
	al, ok := binding.(*ssa.Alloc)
	if !ok || al.Referrers() == nil {
		return false
	}
	stores := 0
	for _, r := range *al.Referrers() {
		switch u := r.(type) {
		case *ssa.Store:
			if u.Addr == al {
				stores++
			} else {
				return false
			}
		case *ssa.UnOp, *ssa.DebugRef:
		case *ssa.MakeClosure:
			// no closure capturing the variable may store to it
			cf := u.Fn.(*ssa.Function)
			for bi, bv := range u.Bindings {
				if bv != al {
					continue
				}
				if cf.FreeVars[bi].Referrers() == nil {
					continue
				}
				for _, cr := range *cf.FreeVars[bi].Referrers() {
					switch cu := cr.(type) {
					case *ssa.UnOp, *ssa.DebugRef:
					case *ssa.Store:
						if cu.Addr == cf.FreeVars[bi] {
							return false
						}
					case *ssa.MakeClosure:
						return false // nested capture: be conservative
					default:
						return false
					}
				}
			}
		default:
			return false
		}
	}
	return stores == 1
}

func isByte(t types.Type) bool {
	b, ok := t.Underlying().(*types.Basic)
	return ok && b.Kind() == types.Uint8
}

// spliceBytes (string-theory mode): overwrite n bytes at position pos of backing array base by src.
func (g *gen) spliceBytes(nd *node, st *State, base, pos, n, src string) {
	m := g.svGet(st, "$bytes", "(Array Int Bytes)")
	old := app("select", m, base)
	nv := app("str.++", app("str.substr", old, "0", pos), app("str.substr", src, "0", n),
		app("str.substr", old, app("+", pos, n), app("-", app("str.len", old), app("+", pos, n))))
	g.svAssign(nd, st, "$bytes", "(Array Int Bytes)", app("store", m, base, nv))
}
