package main

// Program loading and the per-function VC driver (multi-pass fixpoint over state
// variables and loop modification sets).

import (
	"fmt"
	"go/ast"
	"go/types"
	"os"
	"path/filepath"
	"sort"
	"strings"

	"golang.org/x/tools/go/packages"
	"golang.org/x/tools/go/ssa"
	"golang.org/x/tools/go/ssa/ssautil"
)

type Program struct {
	sprog       *ssa.Program
	spkgs       map[string]*ssa.Package
	tpkgs       map[string]*types.Package
	spec        *Spec
	funcs       map[string]*ssa.Function
	mutGlobals  map[string]bool
	importAlias map[string]map[string]string
	pkgDirs     map[string]string
	repo        string
	loadSecs    float64
	reLits      map[string]string
	// lemmaRegion: lemmas listed as known findings hold only outside the recorded region;
	// wherever such a lemma is used as a fact it is weakened to (region || lemma)
	lemmaRegion map[string]string
	// localSigs: type and provenance of the local names of the functions under contract, as recorded by
	// `pikevc pin` (props/_locals.json); used to follow renamed locals
	localSigs map[string]map[string]localSig
}

var pikePkgs = []string{"./cache", "./server", "./location", "./config", "./compress", "./upstream", "./util", "./store"}

func loadProgram(repo, libdir string) (*Program, error) {
	cfg := &packages.Config{Mode: packages.LoadAllSyntax, Dir: repo, BuildFlags: []string{"-tags=verif"},
		Env: append(os.Environ(), "GOFLAGS=-mod=mod", "GOPROXY=off", "GOSUMDB=off", "GOTOOLCHAIN=local")}
	pkgs, err := packages.Load(cfg, pikePkgs...)
	if err != nil {
		return nil, err
	}
	for _, p := range pkgs {
		if len(p.Errors) > 0 {
			return nil, fmt.Errorf("package %s: %v", p.PkgPath, p.Errors[0])
		}
	}
	prog, spkgs := ssautil.Packages(pkgs, ssa.GlobalDebug)
	P := &Program{sprog: prog, spkgs: map[string]*ssa.Package{}, tpkgs: map[string]*types.Package{}, funcs: map[string]*ssa.Function{},
		mutGlobals: map[string]bool{}, importAlias: map[string]map[string]string{}, pkgDirs: map[string]string{}, repo: repo}
	pkgNames := map[string]string{}
	for i, sp := range spkgs {
		if sp == nil {
			continue
		}
		sp.Build()
		P.spkgs[sp.Pkg.Path()] = sp
		if len(pkgs[i].GoFiles) > 0 {
			P.pkgDirs[sp.Pkg.Path()] = filepath.Dir(pkgs[i].GoFiles[0])
		}
		pkgNames[sp.Pkg.Path()] = sp.Pkg.Name()
	}
	packages.Visit(pkgs, nil, func(p *packages.Package) {
		if p.Types != nil {
			P.tpkgs[p.PkgPath] = p.Types
		}
	})
	for _, p := range pkgs {
		al := map[string]string{}
		for _, f := range p.Syntax {
			for _, im := range f.Imports {
				if im.Name != nil {
					al[im.Name.Name] = strings.Trim(im.Path.Value, `"`)
				}
			}
		}
		P.importAlias[p.PkgPath] = al
		_ = ast.NewIdent
	}
	// index functions (including anonymous ones and methods)
	var addFn func(f *ssa.Function)
	addFn = func(f *ssa.Function) {
		if f == nil || f.Synthetic != "" && !strings.HasPrefix(f.Synthetic, "package init") {
			return
		}
		P.funcs[funcKey(f)] = f
		for _, af := range f.AnonFuncs {
			addFn(af)
		}
	}
	for _, sp := range P.spkgs {
		for _, m := range sp.Members {
			switch x := m.(type) {
			case *ssa.Function:
				addFn(x)
			case *ssa.Type:
				for _, t := range []types.Type{x.Type(), types.NewPointer(x.Type())} {
					ms := prog.MethodSets.MethodSet(t)
					for i := 0; i < ms.Len(); i++ {
						if f := prog.MethodValue(ms.At(i)); f != nil && f.Synthetic == "" {
							addFn(f)
						}
					}
				}
			}
		}
	}
	// globals written outside package initialisers are mutable
	for _, f := range P.funcs {
		if f.Name() == "init" || strings.HasPrefix(f.Name(), "init#") || strings.HasPrefix(f.Name(), "init$") {
			continue
		}
		root := f
		for root.Parent() != nil {
			root = root.Parent()
		}
		if root.Name() == "init" || strings.HasPrefix(root.Name(), "init#") {
			continue
		}
		for _, b := range f.Blocks {
			for _, in := range b.Instrs {
				if s, ok := in.(*ssa.Store); ok {
					if gl, ok := s.Addr.(*ssa.Global); ok {
						P.mutGlobals[gl.Pkg.Pkg.Path()+"."+gl.Name()] = true
					}
				}
				// address taken and passed on: conservatively mutable
				if c, ok := in.(ssa.CallInstruction); ok {
					for _, a := range c.Common().Args {
						if gl, ok := a.(*ssa.Global); ok {
							P.mutGlobals[gl.Pkg.Pkg.Path()+"."+gl.Name()] = true
						}
					}
				}
			}
		}
	}
	sp, err := loadAllSpecs(repo, libdir, P.pkgDirs, pkgNames)
	if err != nil {
		return nil, err
	}
	P.spec = sp
	P.reLits = P.regexLiterals()
	return P, nil
}

// ---- per-function VC ----

type vcResult struct {
	g    *gen
	base string
}

func (P *Program) genVC(key string) (*gen, error) { return P.genVCWith(key, nil) }

func (P *Program) genVCWith(key string, known map[string]Finding) (*gen, error) {
	fn := P.funcs[key]
	if fn == nil {
		return nil, fmt.Errorf("function %s not found in the loaded packages (renamed or removed?)", key)
	}
	fs := P.spec.Funcs[key]
	if fs == nil {
		return nil, fmt.Errorf("no contract for %s", key)
	}
	allVars := map[string]string{}
	loopMods := map[string]map[string]bool{}
	var g *gen
	for pass := 0; pass < 10; pass++ {
		g = &gen{P: P, fn: fn, fs: fs, c: newSmtCtx(fs.Strings), key: key, name: shortKey(key),
			oblNames: map[string]int{}, allVars: allVars, loopMods: loopMods, loopModsN: map[string]map[string]bool{},
			deferIdx: map[*ssa.Defer]int{}, counters: map[string]int{}, used: map[string]bool{}, snapNames: map[string]bool{},
			loopInfos: map[*ssa.Function]*loopInfo{}, localCell: map[string]string{}, fieldRefs: map[string]*fieldAccess{}, finalVals: map[*ssa.FreeVar]Val{}, pureCache: map[*SpecFunc]bool{}, lockSiteOrd: map[interface{}]int{}, iters: map[*ssa.Range]*iterInfo{}}
		g.known = known
		g.run()
		stable := !g.newVars
		next := map[string]map[string]bool{}
		for id, obs := range g.loopModsN {
			used, known := loopMods[id]
			if !known {
				stable = false
				next[id] = obs
				continue
			}
			merged := map[string]bool{}
			for k := range obs {
				merged[k] = true
				if !used[k] {
					stable = false
				}
			}
			// shrink towards what was observed under the previous (larger) set
			if len(obs) < len(used) {
				stable = false
			}
			next[id] = merged
		}
		for id, used := range loopMods {
			if _, ok := next[id]; !ok {
				next[id] = used
			}
		}
		loopMods = next
		if stable {
			return g, nil
		}
		if len(g.errs) > 0 && pass >= 2 {
			return g, nil
		}
	}
	g.errorf("%s: state-variable / loop-modification fixpoint did not converge", g.name)
	return g, nil
}

func (g *gen) run() {
	fn, fs := g.fn, g.fs
	g.entry = g.newNode("entry")
	st := &State{m: map[string]string{}}
	old := &State{m: map[string]string{}}
	fr := &frame{fn: fn, vals: map[ssa.Value]Val{}, top: true, closures: map[ssa.Value]*ssa.MakeClosure{}}
	g.topFrame = fr
	nx := g.svGet(st, "$nxt", "Int")
	g.entry.assume(app(">=", nx, "1"))
	g.svGet(st, "$held", "(Array Ref Int)")
	// defer sites and lock sites in source order
	type posd struct {
		pos int
		d   *ssa.Defer
	}
	var ds []posd
	var lockPos []int
	lockAt := map[int]interface{}{}
	for _, b := range fn.Blocks {
		for _, in := range b.Instrs {
			if d, ok := in.(*ssa.Defer); ok {
				ds = append(ds, posd{int(d.Pos()), d})
			}
			if c, ok := in.(ssa.CallInstruction); ok {
				if sc := c.Common().StaticCallee(); sc != nil {
					if op, ok := lockOps[funcKey(sc)]; ok && (op == "lock" || op == "rlock") {
						lockPos = append(lockPos, int(in.Pos()))
						lockAt[int(in.Pos())] = in.Pos()
					}
				}
			}
		}
	}
	sort.Slice(ds, func(i, j int) bool { return ds[i].pos < ds[j].pos })
	for i, d := range ds {
		g.deferSites = append(g.deferSites, d.d)
		g.deferIdx[d.d] = i
		g.svSet(st, fmt.Sprintf("$defer.%d", i), "Bool", "false")
	}
	g.assignLockSites(fn)

	// parameters
	sig := fn.Signature
	g.paramBind = map[string]binding{}
	var args []Val
	for _, p := range fn.Params {
		v, as := g.freshVal("p."+p.Name(), p.Type(), st)
		fr.vals[p] = v
		args = append(args, v)
		for _, a := range as {
			g.entry.assume(a)
		}
	}
	for _, fv := range fn.FreeVars {
		v, as := g.freshVal("fv."+fv.Name(), fv.Type(), st)
		fr.vals[fv] = v
		for _, a := range as {
			g.entry.assume(a)
		}
		g.paramBind[fv.Name()] = binding{v, xtOf(fv.Type())}
		if pt, ok := fv.Type().Underlying().(*types.Pointer); ok && finalFreeVar(fv) {
			// a captured variable that is never reassigned: in contracts its name denotes the value
			cv, cas := g.freshVal("fvval."+fv.Name(), pt.Elem(), st)
			for _, a := range cas {
				g.entry.assume(a)
			}
			g.entry.assume(not(app("=", v.(string), "null")))
			g.finalVals[fv] = cv
			g.paramBind[fv.Name()] = binding{cv, xtOf(pt.Elem())}
		}
	}
	e0, err := g.bindParams(fs, fn, sig, args, nil, st, old)
	if err != nil {
		g.errorf("%v", err)
		return
	}
	for k, v := range e0.vars {
		g.paramBind[k] = v
	}
	// axioms and proved lemmas are available as facts
	g.addAxioms(st)
	// preconditions
	pe := g.topEnv(st, old, nil)
	for _, c := range fs.Requires {
		t, err := pe.trAssume(c.E)
		if err != nil {
			g.errorf("%s: requires [%s]: %v", g.name, c.Label, err)
			continue
		}
		g.entry.assume(t)
	}
	exits := g.execFunc(fr, g.entry, st)
	for _, ex := range exits {
		g.checkExitLocal(fr, ex)
		g.checkExit(ex.n, ex.st, ex.results, false)
	}
	// panic exit
	if len(g.panicPreds) > 0 {
		pn, pst := g.joinPreds(g.panicPreds, "panic-exit")
		g.inPanicExit = true
		fr.inDefer = true
		pn = g.runDefers(fr, pn, pst, nil, true)
		fr.inDefer = false
		g.inPanicExit = false
		g.checkExit(pn, pst, nil, true)
	}
}

func (g *gen) assignLockSites(fn *ssa.Function) {
	type ps struct {
		pos int
		key interface{}
	}
	var all []ps
	var walk func(f *ssa.Function)
	walk = func(f *ssa.Function) {
		for _, b := range f.Blocks {
			for _, in := range b.Instrs {
				if c, ok := in.(ssa.CallInstruction); ok {
					if sc := c.Common().StaticCallee(); sc != nil {
						if _, ok := lockOps[funcKey(sc)]; ok {
							all = append(all, ps{int(in.Pos()), in.Pos()})
						}
					}
				}
			}
		}
		for _, af := range f.AnonFuncs {
			walk(af)
		}
	}
	walk(fn)
	sort.Slice(all, func(i, j int) bool { return all[i].pos < all[j].pos })
	nl, nu := 0, 0
	_ = nu
	for _, p := range all {
		g.lockSiteOrd[p.key] = nl
		nl++
	}
}

func (g *gen) addAxioms(st *State) {
	for _, ax := range g.P.spec.Axioms {
		if !g.axiomRelevant(ax) {
			continue
		}
		e := &env{g: g, vars: map[string]binding{}, st: st, old: st, pkgPath: ax.PkgPath, imports: ax.Imports}
		t, err := e.trBool(g.P.factOf(ax))
		if err != nil {
			if ax.Strings != g.c.strMode {
				continue // does not translate in this string mode
			}
			g.errorf("axiom %s (%s): %v", ax.Name, ax.File, err)
			continue
		}
		g.globalAx = append(g.globalAx, t)
		if ax.Lemma {
			g.used["lemma:"+ax.Name] = true
		} else {
			g.used["axiom:"+ax.Name] = true
		}
	}
}

// axiomRelevant: axioms are attached to functions through "uses" lists in props, or
// by package: an axiom of package P is used for functions of P and for libspec always.
func (g *gen) axiomRelevant(ax *Axiom) bool {
	if len(g.fs.UseAxioms) > 0 {
		for _, n := range g.fs.UseAxioms {
			if n == ax.Name {
				return true
			}
		}
	}
	return ax.Global
}

func (g *gen) checkExit(n *node, st *State, results []Val, panicking bool) {
	fs := g.fs
	old := &State{m: map[string]string{}}
	e := g.topEnv(st, old, results)
	clauses := fs.Ensures
	kind := "ensures"
	if panicking {
		clauses = fs.EnsuresPanic
		kind = "ensures_on_panic"
	}
	for i, c := range clauses {
		t, err := e.trAssert(c.E)
		if err != nil {
			g.errorf("%s: %s [%s]: %v", g.name, kind, c.Label, err)
			continue
		}
		full := g.name + "/" + kind + ":" + c.Label
		if f, ok := g.known[full]; ok && f.Region != "" {
			// a recorded finding: prove the clause outside its region, and re-confirm the region
			re, err := parseExpr(f.Region)
			if err == nil {
				var rt string
				rt, err = e.trBool(re)
				if err == nil {
					g.addObl(n, "finding", kind+":"+c.Label+"@finding", c.Src, c.Where, t, false)
					t = or(rt, t)
				}
			}
			if err != nil {
				g.errorf("known finding region for %s: %v", full, err)
			}
		}
		g.addObl(n, kind, kind+":"+c.Label, c.Src, c.Where, t, false)
		if i == 0 && !panicking && !g.canaryDone {
			g.canaryDone = true
			g.addObl(n, "canary", "canary:neg:"+c.Label, "negation of "+c.Src, c.Where, not(t), false)
		}
	}
	if panicking && fs.NoPanic {
		g.addObl(n, "nopanic", "nopanic", "the function is declared nopanic but a call in it may panic", fs.File, "false", false)
	}
	// locks: everything acquired here has been released
	h := g.svGet(st, "$held", "(Array Ref Int)")
	h0 := g.svGet(old, "$held", "(Array Ref Int)")
	if h != h0 {
		nm := "lock-leak"
		if panicking {
			nm = "lock-leak-on-panic"
		}
		g.addObl(n, "lock-leak", nm, "locks held at exit equal locks held at entry", "", app("=", h, h0), false)
	}
	if !panicking {
		g.checkTypeInvs(n, st, results)
		g.checkFrame(n, st, old)
		g.addObl(n, "smoke", "smoke:exit", "exit reachable under all assumptions", "", "false", false)
	}
}

// checkFrame: every state variable changed on pre-existing locations must be listed in modifies.
func (g *gen) checkFrame(n *node, st, old *State) {
	fs := g.fs
	heapAll := false
	whole := map[string]bool{}
	listed := map[string][]string{} // state var -> base terms allowed to change
	scalarOK := map[string]bool{}
	e := g.topEnv(old, old, nil)
	for _, ml := range fs.Modifies {
		if ml.All == "heap" {
			heapAll = true
			continue
		}
		if strings.HasPrefix(ml.All, "cells(") {
			if name, _, ok := g.cellsVar(ml.All, fs.PkgPath, fs.Imports); ok {
				whole[name] = true
			}
			continue
		}
		if ml.All == "pointee" {
			ref, elem, fa, err := g.pointeeTarget(e, ml.E)
			if err != nil {
				continue
			}
			if fa != nil {
				listed[fieldMapName(fa.structT, fa.field.Name())] = append(listed[fieldMapName(fa.structT, fa.field.Name())], fa.base)
				continue
			}
			var lms []leafMap
			g.leafMaps(elem, nil, &lms)
			for _, lm := range lms {
				listed[lm.name] = append(listed[lm.name], refPath(ref, lm.path))
			}
			continue
		}
		if ml.All != "" {
			parts := strings.SplitN(ml.All, "::", 2)
			xt, err := g.resolveType(&TypeExpr{Kind: "name", Name: strings.TrimSpace(parts[0])}, fs.PkgPath, fs.Imports)
			if err == nil && xt.T != nil {
				if name, _, ok := g.fieldVar(xt.T, strings.TrimSpace(parts[1])); ok {
					whole[name] = true
				}
			}
			continue
		}
		switch x := ml.E.(type) {
		case *EIdent:
			scalarOK[x.Name] = true
		case *EIndex:
			if id, ok := x.X.(*EIdent); ok {
				k, _, err := e.tr(x.I)
				if err == nil {
					listed[id.Name] = append(listed[id.Name], k.(string))
				}
			}
		case *ESel:
			if ref, et, ok := e.trAddr(x.X); ok {
				if name, _, ok := g.fieldVar(et, x.Sel); ok {
					listed[name] = append(listed[name], ref)
				}
				continue
			}
			base, bxt, err := e.tr(x.X)
			if err != nil {
				continue
			}
			var st0 types.Type
			if t, ok := derefStruct(bxt.T); ok {
				st0 = t
			} else if bxt.T != nil {
				st0 = bxt.T
				if p, ok := st0.Underlying().(*types.Pointer); ok {
					st0 = p.Elem()
				}
			}
			if st0 == nil {
				continue
			}
			if name, _, ok := g.fieldVar(st0, x.Sel); ok {
				listed[name] = append(listed[name], base.(string))
			}
		}
	}
	var names []string
	for name := range g.allVars {
		names = append(names, name)
	}
	sort.Strings(names)
	nx0 := g.svGet(old, "$nxt", "Int")
	for _, name := range names {
		if strings.HasPrefix(name, "snap.") || strings.HasPrefix(name, "$defer.") || strings.HasPrefix(name, "$it.") || strings.HasPrefix(name, "L.") || name == "$nxt" || name == "$held" {
			continue
		}
		srt := g.allVars[name]
		cur := g.svGet(st, name, srt)
		init := g.svGet(old, name, srt)
		if cur == init || whole[name] || scalarOK[name] {
			continue
		}
		if heapAll && !strings.HasPrefix(name, "$") {
			continue
		}
		if heapAll && strings.HasPrefix(name, "$") {
			if gd := g.P.spec.GhostVars[name]; gd == nil || !gd.Local {
				continue
			}
		}
		var t string
		if strings.HasPrefix(srt, "(Array ") {
			ks := arrayKeySort(srt)
			var excl []string
			for _, b := range listed[name] {
				excl = append(excl, not(app("=", "fr", b)))
			}
			guard := and(excl...)
			if ks == "Ref" {
				guard = and(app("<", app("rootid", "fr"), nx0), guard)
			} else if ks == "Int" && name == "$bytes" {
				guard = and(app("<", "fr", nx0), guard)
			}
			t = fmt.Sprintf("(forall ((fr %s)) (=> %s (= (select %s fr) (select %s fr))))", ks, guard, cur, init)
		} else {
			t = app("=", cur, init)
		}
		g.addObl(n, "frame", "frame:"+name, "not listed in modifies: "+name, fs.File, t, false)
	}
}

// checkTypeInvs: constructors prove the type invariant of what they return.
func (g *gen) checkTypeInvs(n *node, st *State, results []Val) {
	sig := g.fn.Signature
	for i := 0; i < sig.Results().Len() && i < len(results); i++ {
		rt := sig.Results().At(i).Type()
		ti := g.typeInvFor(rt)
		if ti == nil || ti.Assumed {
			continue
		}
		isCtor := false
		for _, b := range ti.By {
			if b == g.key {
				isCtor = true
			}
		}
		if !isCtor {
			continue
		}
		term, ok := results[i].(string)
		if !ok {
			continue
		}
		g.inTypeInv = true
		e := &env{g: g, vars: map[string]binding{ti.Var: {term, xtOf(rt)}}, st: st, old: st, pkgPath: ti.PkgPath, imports: ti.Imports}
		tt, err := e.trAssert(ti.E)
		g.inTypeInv = false
		if err != nil {
			g.errorf("typeinv %s: %v", ti.Type, err)
			continue
		}
		g.addObl(n, "typeinv", "typeinv:"+ti.Type, ti.Src, g.fs.File, implies(not(app("=", term, "null")), tt), false)
	}
}

// checkTypeInvAllocs: objects of a type with a verified type invariant are only allocated
// by its declared constructors.
func (P *Program) checkTypeInvAllocs() []string {
	var errs []string
	for _, ti := range P.spec.TypeInvs {
		if ti.Assumed {
			continue
		}
		for key, fn := range P.funcs {
			isCtor := false
			for _, b := range ti.By {
				if b == key {
					isCtor = true
				}
			}
			if isCtor {
				continue
			}
			for _, b := range fn.Blocks {
				for _, in := range b.Instrs {
					if a, ok := in.(*ssa.Alloc); ok {
						el := a.Type().Underlying().(*types.Pointer).Elem()
						if k, ok := namedStructKey(el); ok && k == ti.PkgPath+"."+ti.Type {
							if fn.Pkg != nil && strings.HasSuffix(P.sprog.Fset.Position(a.Pos()).Filename, "_test.go") {
								continue
							}
							errs = append(errs, fmt.Sprintf("%s allocates %s but is not one of its declared constructors (typeinv ... by ...)", key, k))
						}
					}
				}
			}
		}
	}
	sort.Strings(errs)
	return errs
}

// checkExitLocal: ensures_local clauses, evaluated with the function's locals in scope.
func (g *gen) checkExitLocal(fr *frame, ex exitRec) {
	if len(g.fs.EnsuresLocal) == 0 || ex.block == nil {
		return
	}
	e := g.topEnv(ex.st, &State{m: map[string]string{}}, ex.results)
	for k, v := range g.localEnvAt(fr, ex.block, ex.idx, ex.st) {
		if _, bound := e.vars[k]; !bound {
			e.vars[k] = v
		}
	}
	for _, c := range g.fs.EnsuresLocal {
		t, err := e.trAssert(c.E)
		if err != nil {
			if strings.Contains(err.Error(), "unknown identifier") {
				continue // a local that is not defined on the path to this exit: the clause does not apply here
			}
			g.errorf("%s: ensures_local [%s]: %v", g.name, c.Label, err)
			continue
		}
		g.addObl(ex.n, "ensures", "ensures_local:"+c.Label, c.Src, c.Where, t, false)
	}
}

// factOf is the formula under which an axiom or lemma may be used as a fact.
func (P *Program) factOf(ax *Axiom) Expr {
	if !ax.Lemma {
		return ax.E
	}
	region, ok := P.lemmaRegion[ax.Name]
	if !ok {
		return ax.E
	}
	if region == "" {
		return &EBool{V: true} // a failing lemma without a region is never used
	}
	re, err := parseExpr(region)
	if err != nil {
		return &EBool{V: true}
	}
	if q, ok := ax.E.(*EQuant); ok && q.Forall {
		return &EQuant{Forall: true, Vars: q.Vars, Patterns: q.Patterns, AltPatterns: q.AltPatterns, Body: &EBin{Op: "||", L: re, R: q.Body}}
	}
	return &EBin{Op: "||", L: re, R: ax.E}
}
