package main

// Counterexample models and their replay against the real code.

import (
	"fmt"
	"regexp"
	"strings"
)

type replayResult struct {
	Template  string            `json:"template"`
	Inputs    map[string]string `json:"inputs"`
	TestFile  string            `json:"test_source,omitempty"`
	Output    string            `json:"output,omitempty"`
	Confirmed bool              `json:"confirmed"`
	Note      string            `json:"note,omitempty"`
}

var modelRe = regexp.MustCompile(`\(define-fun (p\.[^ ]+?)![0-9]+ \(\) (\w+) ((?:\(- [0-9.]+\))|[^() ]+|"(?:[^"]|"")*")\)`)

// parseModel extracts scalar parameter values (names p.<param>[.<field>]) from a solver model.
func parseModel(out string) map[string]string {
	flat := strings.Join(strings.Fields(out), " ")
	m := map[string]string{}
	for _, x := range modelRe.FindAllStringSubmatch(flat, -1) {
		v := x[3]
		if strings.HasPrefix(v, "(- ") {
			v = "-" + strings.TrimSuffix(strings.TrimPrefix(v, "(- "), ")")
		}
		m[strings.TrimPrefix(x[1], "p.")] = v
	}
	return m
}

func replayModel(P *Program, g *gen, o *obligation, model map[string]string) *replayResult {
	rt := replayTemplates[g.key]
	if rt == nil {
		return nil
	}
	return rt(P, g, o, model)
}

var replayTemplates = map[string]func(P *Program, g *gen, o *obligation, model map[string]string) *replayResult{}

var _ = fmt.Sprint
