package main

import (
	"encoding/json"
	"flag"
	"fmt"
	"os"
	"path/filepath"
	"sort"
	"strings"
	"time"

	"golang.org/x/tools/go/ssa"
)

var (
	repoDir  = "/repo"
	verifDir = "/verif"
)

func main() {
	if v := os.Getenv("PIKEVC_REPO"); v != "" {
		repoDir = v
	}
	if v := os.Getenv("PIKEVC_VERIF"); v != "" {
		verifDir = v
	}
	if len(os.Args) < 2 {
		fmt.Fprintln(os.Stderr, "usage: pikevc vc|check|ssa|list ...")
		os.Exit(2)
	}
	switch os.Args[1] {
	case "ssa":
		cmdSSA(os.Args[2:])
	case "vc":
		cmdVC(os.Args[2:])
	case "check":
		os.Exit(cmdCheck(os.Args[2:]))
	case "lemma":
		P := mustLoad()
		dir, _ := os.MkdirTemp("", "pikevc-lemma")
		defer os.RemoveAll(dir)
		for _, n := range os.Args[2:] {
			a, q, err := proveLemma(P, n, dir, 20, true)
			if err != nil {
				fmt.Println("ERROR", err)
				continue
			}
			fmt.Printf("lemma %-30s %-8s %-14s %.2fs (%d bytes)\n", n, a.Result, a.Solver, a.Secs, len(q))
			if a.Result != "unsat" {
				fmt.Println(truncate(a.Output, 1500))
			}
			if os.Getenv("PIKEVC_DUMP") != "" {
				_ = os.WriteFile(filepath.Join(os.Getenv("PIKEVC_DUMP"), "lemma_"+n+".smt2"), []byte(q), 0o644)
			}
		}
	case "pin":
		os.Exit(cmdPin(os.Args[2:]))
	case "selftest":
		os.Exit(cmdSelftest(os.Args[2:]))
	case "list":
		P := mustLoad()
		var ks []string
		for k := range P.funcs {
			ks = append(ks, k)
		}
		sort.Strings(ks)
		for _, k := range ks {
			c := ""
			if P.spec.Funcs[k] != nil {
				c = " [contract]"
			}
			fmt.Println(k + c)
		}
	default:
		fmt.Fprintln(os.Stderr, "unknown command", os.Args[1])
		os.Exit(2)
	}
}

func mustLoad() *Program {
	t0 := time.Now()
	P, err := loadProgram(repoDir, filepath.Join(verifDir, "libspec"))
	if err != nil {
		fmt.Fprintln(os.Stderr, "load error:", err)
		os.Exit(3)
	}
	P.loadSecs = time.Since(t0).Seconds()
	P.localSigs = map[string]map[string]localSig{}
	if data, err := os.ReadFile(filepath.Join(verifDir, "props", "_locals.json")); err == nil {
		_ = json.Unmarshal(data, &P.localSigs)
	}
	P.lemmaRegion = map[string]string{}
	for _, f := range loadFindings().Findings {
		if strings.HasPrefix(f.Obligation, "lemma/") {
			P.lemmaRegion[strings.TrimPrefix(f.Obligation, "lemma/")] = f.Region
		}
	}
	return P
}

func resolveKey(P *Program, s string) string {
	if _, ok := P.funcs[s]; ok {
		return s
	}
	full := "github.com/vicanso/pike/" + s
	if _, ok := P.funcs[full]; ok {
		return full
	}
	return s
}

func cmdSSA(args []string) {
	P := mustLoad()
	for _, a := range args {
		f := P.funcs[resolveKey(P, a)]
		if f == nil {
			fmt.Println("not found:", a)
			continue
		}
		f.WriteTo(os.Stdout)
		_ = ssa.NaiveForm
	}
}

func cmdVC(args []string) {
	fl := flag.NewFlagSet("vc", flag.ExitOnError)
	dump := fl.String("dump", "", "directory to keep SMT files")
	timeout := fl.Int("t", 10, "timeout per obligation (s)")
	cross := fl.Bool("cross", false, "run all solvers to completion")
	onlyPat := fl.String("only", "", "substring filter on obligation names")
	_ = fl.Parse(args)
	P := mustLoad()
	dir := *dump
	if dir == "" {
		d, _ := os.MkdirTemp("", "pikevc")
		dir = d
		defer os.RemoveAll(d)
	} else {
		_ = os.MkdirAll(dir, 0o755)
	}
	bad := 0
	for _, a := range fl.Args() {
		key := resolveKey(P, a)
		g, err := P.genVC(key)
		if err != nil {
			fmt.Println("ERROR", err)
			bad++
			continue
		}
		for _, e := range g.errs {
			fmt.Println("  ENGINE-ERROR:", e)
			bad++
		}
		res := solveAll(g, dir, *timeout, *cross, func(o *obligation) bool {
			return *onlyPat == "" || strings.Contains(o.Name, *onlyPat)
		}, 6)
		for _, r := range res {
			status := "OK  "
			if r.Obl.Kind == "canary" || r.Obl.Kind == "finding" {
				status = "meta"
				if r.Answer.Result == "unsat" && r.Obl.Kind == "canary" {
					status = "VACUOUS"
					bad++
				}
			} else if r.Obl.Kind == "smoke" {
				if r.Answer.Result == "unsat" {
					status = "dead"
				} else if r.Answer.Result != "sat" {
					status = "meta"
				}
			} else if r.Answer.Result != "unsat" {
				status = "FAIL"
				bad++
			}
			fmt.Printf("%s %-70s %-8s %-14s %.2fs\n", status, r.Obl.Name, r.Answer.Result, r.Answer.Solver, r.Answer.Secs)
			if status == "FAIL" {
				fmt.Printf("       at %s: %s\n", r.Obl.Pos, truncate(r.Obl.Clause, 150))
			}
			if *cross {
				for _, x := range r.All {
					fmt.Printf("       %-14s %-8s %.2fs\n", x.Solver, x.Result, x.Secs)
				}
			}
		}
		var used []string
		for k := range g.used {
			used = append(used, k)
		}
		sort.Strings(used)
		fmt.Println("  uses:", strings.Join(used, ", "))
	}
	if bad > 0 {
		if *dump == "" {
			os.RemoveAll(dir)
		}
		os.Exit(1)
	}
}
