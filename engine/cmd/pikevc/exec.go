package main

// Symbolic execution of SSA into the node graph.

import (
	"fmt"
	"go/token"
	"go/types"
	"sort"
	"strings"

	"golang.org/x/tools/go/ssa"
)

func (g *gen) loops(fn *ssa.Function) *loopInfo {
	if li, ok := g.loopInfos[fn]; ok {
		return li
	}
	li := computeLoops(fn, g.P.sprog.Fset)
	g.loopInfos[fn] = li
	return li
}

// localNames maps source-level local variable names to candidate SSA values.
// addrLocals maps names of address-taken locals (escaping allocs) to their Alloc.
func addrLocals(fn *ssa.Function) map[string]*ssa.Alloc {
	out := map[string]*ssa.Alloc{}
	for _, b := range fn.Blocks {
		for _, in := range b.Instrs {
			if d, ok := in.(*ssa.DebugRef); ok && d.IsAddr {
				if a, ok := d.X.(*ssa.Alloc); ok {
					if obj := d.Object(); obj != nil {
						if _, ok := obj.(*types.Var); ok {
							out[obj.Name()] = a
						}
					}
				}
			}
		}
	}
	// variables captured by a closure live in a cell too; go/ssa names the cell after the variable
	names := localNames(fn)
	for _, b := range fn.Blocks {
		for _, in := range b.Instrs {
			a, ok := in.(*ssa.Alloc)
			if !ok || a.Comment == "" || out[a.Comment] != nil || names[a.Comment] == nil {
				continue
			}
			captured := false
			if refs := a.Referrers(); refs != nil {
				for _, r := range *refs {
					if _, ok := r.(*ssa.MakeClosure); ok {
						captured = true
					}
				}
			}
			if captured {
				out[a.Comment] = a
			}
		}
	}
	return out
}

func (g *gen) bindAddrLocals(fr *frame, st *State, at *ssa.BasicBlock, out map[string]binding) {
	names := localNames(fr.fn)
	for name, a := range addrLocals(fr.fn) {
		if _, has := out[name]; has {
			// The name is already bound to an SSA value. If every value that carries this name is a load
			// of this very cell, the variable lives in memory and the name means its current contents,
			// not the result of some earlier load.
			fromCell := true
			stored := map[ssa.Value]bool{}
			if refs := a.Referrers(); refs != nil {
				for _, r := range *refs {
					if s, ok := r.(*ssa.Store); ok && s.Addr == ssa.Value(a) {
						stored[s.Val] = true
					}
				}
			}
			for _, c := range names[name] {
				if stored[c] {
					continue // a value assigned to the variable
				}
				u, ok := c.(*ssa.UnOp)
				if !ok || u.Op != token.MUL || u.X != ssa.Value(a) {
					fromCell = false
				}
			}
			if !fromCell {
				continue
			}
		}
		ref, ok := fr.vals[a]
		if !ok {
			continue
		}
		if a.Block() != at && !a.Block().Dominates(at) {
			continue
		}
		el := a.Type().Underlying().(*types.Pointer).Elem()
		out[name] = binding{g.loadAt(st, ref.(string), el), xtOf(el)}
	}
	g.aliasRenamed(fr, out)
}

func localNames(fn *ssa.Function) map[string][]ssa.Value {
	out := map[string][]ssa.Value{}
	add := func(name string, v ssa.Value) {
		for _, x := range out[name] {
			if x == v {
				return
			}
		}
		out[name] = append(out[name], v)
	}
	for _, b := range fn.Blocks {
		for _, in := range b.Instrs {
			if d, ok := in.(*ssa.DebugRef); ok && !d.IsAddr {
				if obj := d.Object(); obj != nil {
					if _, ok := obj.(*types.Var); ok {
						add(obj.Name(), d.X)
					}
				}
			}
			if p, ok := in.(*ssa.Phi); ok && p.Comment != "" {
				add(p.Comment, p)
			}
		}
	}
	return out
}

func definingBlock(v ssa.Value) *ssa.BasicBlock {
	if in, ok := v.(ssa.Instruction); ok {
		return in.Block()
	}
	return nil
}

// loopEnvVars resolves source names visible in a loop invariant at header h.
func (g *gen) loopEnvVars(fr *frame, h *ssa.BasicBlock, phiVals map[*ssa.Phi]Val, st *State) map[string]binding {
	out := map[string]binding{}
	defer g.bindAddrLocals(fr, st, h, out)
	names := localNames(fr.fn)
	body := fr.li.body[h]
	for name, cands := range names {
		var pick ssa.Value
		// 1. phi of this header
		for _, c := range cands {
			if p, ok := c.(*ssa.Phi); ok && p.Block() == h {
				pick = c
			}
		}
		if pick == nil {
			var outside []ssa.Value
			for _, c := range cands {
				if _, isConst := c.(*ssa.Const); isConst {
					continue
				}
				db := definingBlock(c)
				if db == nil { // parameter / free var
					outside = append(outside, c)
					continue
				}
				if !body[db] && db.Dominates(h) {
					outside = append(outside, c)
				}
			}
			if len(outside) == 1 {
				pick = outside[0]
			} else if len(outside) > 1 {
				// choose the one defined last (closest dominating definition)
				sort.Slice(outside, func(i, j int) bool {
					bi, bj := definingBlock(outside[i]), definingBlock(outside[j])
					if bi == nil {
						return true
					}
					if bj == nil {
						return false
					}
					if bi == bj {
						return instrIndex(outside[i]) < instrIndex(outside[j])
					}
					return bi.Dominates(bj)
				})
				pick = outside[len(outside)-1]
			}
		}
		if pick == nil {
			continue
		}
		if p, ok := pick.(*ssa.Phi); ok && phiVals != nil {
			if v, ok := phiVals[p]; ok {
				out[name] = binding{v, xtOf(p.Type())}
				continue
			}
		}
		if v, ok := fr.vals[pick]; ok {
			out[name] = binding{v, xtOf(pick.Type())}
		} else if _, ok := pick.(*ssa.Parameter); ok {
			out[name] = binding{g.val(fr, pick), xtOf(pick.Type())}
		}
	}
	// hidden range index of this header, and of the enclosing loops ($idx<ordinal>)
	for _, in := range h.Instrs {
		if p, ok := in.(*ssa.Phi); ok && p.Comment == "rangeindex" {
			if v, ok := phiVals[p]; ok {
				out["$idx"] = binding{v, xtInt}
				out[fmt.Sprintf("$idx%d", fr.li.headers[h])] = binding{v, xtInt}
			}
		}
	}
	// Loop style tolerance. In "for i := range xs" the source variable i exists only inside the body
	// (it is $idx+1 there); at the header it means "number of completed iterations", which is what i
	// means at the header of "for i := 0; i < n; i++". Conversely $idx of a three-clause loop is i-1.
	for _, in := range h.Instrs {
		p, ok := in.(*ssa.Phi)
		if !ok {
			continue
		}
		pvv, ok := phiVals[p].(string)
		if !ok {
			continue
		}
		if p.Comment == "rangeindex" {
			// the body value phi+1 carries the name of the index variable
			if refs := p.Referrers(); refs != nil {
				for _, r := range *refs {
					bo, ok := r.(*ssa.BinOp)
					if !ok || bo.Op != token.ADD || bo.X != ssa.Value(p) {
						continue
					}
					for name, cands := range names {
						if _, bound := out[name]; bound {
							continue
						}
						for _, c := range cands {
							if c == ssa.Value(bo) {
								out[name] = binding{app("+", pvv, "1"), xtInt}
							}
						}
					}
				}
			}
		} else if _, has := out["$idx"]; !has && p.Comment != "" && isIntType(p.Type()) {
			// induction variable of a three-clause loop: incremented by one on the back edge
			for ei, pred := range h.Preds {
				if !fr.li.body[h][pred] {
					continue
				}
				if bo, ok := p.Edges[ei].(*ssa.BinOp); ok && bo.Op == token.ADD && bo.X == ssa.Value(p) {
					if cst, ok := bo.Y.(*ssa.Const); ok && cst.Value != nil && cst.Value.ExactString() == "1" {
						out["$idx"] = binding{app("-", pvv, "1"), xtInt}
						out[fmt.Sprintf("$idx%d", fr.li.headers[h])] = binding{app("-", pvv, "1"), xtInt}
					}
				}
			}
		}
	}
	// map iteration of this header: $mi, $mn, $mk, $midx
	for _, in := range h.Instrs {
		if nx, ok := in.(*ssa.Next); ok {
			if rg, ok := nx.Iter.(*ssa.Range); ok {
				if info := g.iters[rg]; info != nil && info.cnt != "" && st != nil {
					mt := rg.X.Type().Underlying().(*types.Map)
					kx := xtOf(mt.Key())
					out["$mi"] = binding{g.svGet(st, fmt.Sprintf("$it.%d", info.id), "Int"), xtInt}
					out["$mn"] = binding{info.cnt, xtInt}
					out["$mk"] = binding{info.mk, XT{S: "(Array Int " + kx.S + ")", K: &xtInt, E: &kx}}
					out["$midx"] = binding{info.ix, XT{S: "(Array " + kx.S + " Int)", K: &kx, E: &xtInt}}
				}
			}
		}
	}
	for oh, obody := range fr.li.body {
		if oh == h || !obody[h] {
			continue
		}
		for _, in := range oh.Instrs {
			if p, ok := in.(*ssa.Phi); ok && p.Comment == "rangeindex" {
				if v, ok := fr.vals[p]; ok {
					out[fmt.Sprintf("$idx%d", fr.li.headers[oh])] = binding{v, xtInt}
				}
			}
		}
	}
	return out
}

// localEnvAt resolves source-level local names visible at the start of instruction idx of block b:
// the closest dominating definition of each name.
func (g *gen) localEnvAt(fr *frame, b *ssa.BasicBlock, idx int, st *State) map[string]binding {
	out := map[string]binding{}
	defer g.bindAddrLocals(fr, st, b, out)
	for name, cands := range localNames(fr.fn) {
		var best ssa.Value
		for _, c := range cands {
			if _, isConst := c.(*ssa.Const); isConst {
				continue
			}
			db := definingBlock(c)
			okc := false
			if db == nil {
				okc = true
			} else if db == b {
				okc = instrIndex(c) < idx
			} else {
				okc = db.Dominates(b)
			}
			if !okc {
				continue
			}
			if _, has := fr.vals[c]; !has {
				if _, isParam := c.(*ssa.Parameter); !isParam {
					continue
				}
			}
			if best == nil {
				best = c
				continue
			}
			bb, cb := definingBlock(best), db
			switch {
			case bb == nil:
				best = c
			case cb == nil:
			case bb == cb:
				if instrIndex(c) > instrIndex(best) {
					best = c
				}
			case bb.Dominates(cb):
				best = c
			}
		}
		if best != nil {
			out[name] = binding{g.val(fr, best), xtOf(best.Type())}
		}
	}
	return out
}

func instrIndex(v ssa.Value) int {
	in, ok := v.(ssa.Instruction)
	if !ok {
		return -1
	}
	for i, x := range in.Block().Instrs {
		if x == in {
			return i
		}
	}
	return -1
}

func (g *gen) topEnv(st, old *State, results []Val) *env {
	e := &env{g: g, vars: map[string]binding{}, st: st, old: old, pkgPath: g.fs.PkgPath, imports: g.fs.Imports}
	for k, v := range g.paramBind {
		e.vars[k] = v
	}
	if results != nil {
		sig := g.fn.Signature
		for j, r := range g.fs.Results {
			if j < len(results) {
				e.vars[r.Name] = binding{results[j], xtOf(sig.Results().At(j).Type())}
			}
		}
	}
	return e
}

// execFunc runs fn's body from (entry node, state). Returns normal exits.
func (g *gen) execFunc(fr *frame, entry *node, st0 *State) []exitRec {
	fn := fr.fn
	if len(fn.Blocks) == 0 {
		g.errorf("function %s has no body", fn.Name())
		return nil
	}
	fr.li = g.loops(fn)
	li := fr.li
	in := map[*ssa.BasicBlock][]predRec{}
	in[fn.Blocks[0]] = []predRec{{nil, entry, st0, nil}}
	var exits []exitRec
	hdr := map[*ssa.BasicBlock]*hdrRec{}

	for _, b := range li.order {
		preds := in[b]
		if len(preds) == 0 {
			continue
		}
		// phis: collect per-pred incoming values
		var phis []*ssa.Phi
		for _, ins := range b.Instrs {
			if p, ok := ins.(*ssa.Phi); ok {
				phis = append(phis, p)
			}
		}
		predIndex := func(from *ssa.BasicBlock) int {
			for i, p := range b.Preds {
				if p == from {
					return i
				}
			}
			return -1
		}
		ord, isHeader := li.headers[b]
		loopID := fmt.Sprintf("%s#%d", fn.Name(), ord)

		if isHeader {
			ls := g.loopSpecFor(fr, ord)
			// assert invariants on entry edges
			for _, p := range preds {
				pv := map[*ssa.Phi]Val{}
				for _, phi := range phis {
					pv[phi] = g.val(fr, phi.Edges[predIndex(p.from)])
				}
				g.assertInvariants(fr, p.n, p.st, b, ord, ls, pv, "entry", p.conds)
			}
		}
		var cur *node
		var st *State
		if len(phis) == 0 || len(preds) == 1 {
			cur, st = g.joinPreds(preds, fmt.Sprintf("%s.b%d", fn.Name(), b.Index))
			if len(preds) == 1 {
				for _, phi := range phis {
					fr.vals[phi] = g.val(fr, phi.Edges[predIndex(preds[0].from)])
				}
			}
		} else {
			// add phi equalities to the edge conditions
			np := make([]predRec, len(preds))
			copy(np, preds)
			for _, phi := range phis {
				v, as := g.freshVal(phi.Name()+"."+phi.Comment, phi.Type(), nil)
				fr.vals[phi] = v
				_ = as
				for i := range np {
					inc := g.val(fr, phi.Edges[predIndex(np[i].from)])
					np[i].conds = append(append([]string{}, np[i].conds...), eqVals(v, inc)...)
				}
			}
			cur, st = g.joinPreds(np, fmt.Sprintf("%s.b%d", fn.Name(), b.Index))
		}

		if isHeader {
			ls := g.loopSpecFor(fr, ord)
			// havoc: loop-carried phis and modified state
			hn := g.newNode(fmt.Sprintf("%s.loop%d", fn.Name(), ord))
			cur.succs = append(cur.succs, &edge{hn, nil})
			cur = hn
			before := st.clone()
			mods, known := g.loopMods[loopID]
			if !known {
				for name := range g.allVars {
					g.havocLoopVar(cur, st, before, name)
				}
				for name := range before.m {
					g.havocLoopVar(cur, st, before, name)
				}
			} else {
				var names []string
				for name := range mods {
					names = append(names, name)
				}
				sort.Strings(names)
				for _, name := range names {
					g.havocLoopVar(cur, st, before, name)
				}
			}
			pv := map[*ssa.Phi]Val{}
			for _, phi := range phis {
				v, _ := g.freshVal(phi.Name()+"."+phi.Comment+".h", phi.Type(), nil)
				fr.vals[phi] = v
				pv[phi] = v
				for _, a := range valTypeInv(g, v, phi.Type(), st) {
					cur.assume(a)
				}
			}
			hdr[b] = &hdrRec{st: st.clone(), phiVals: pv, before: before}
			if ls != nil && ls.HasModifies {
				e := g.topEnv(before, &State{m: map[string]string{}}, nil)
				for k, v := range g.loopEnvVars(fr, b, pv, e.st) {
					e.vars[k] = v
				}
				excl, whole := g.loopModifiesExcl(e, ls, ord)
				hdr[b].excl, hdr[b].whole = excl, whole
				g.assumeLoopFrame(cur, st, before, excl, whole)
			}
			if ls != nil {
				e := g.topEnv(st, &State{m: map[string]string{}}, nil)
				for k, v := range g.loopEnvVars(fr, b, pv, e.st) {
					e.vars[k] = v
				}
				for _, c := range ls.Invs {
					t, err := e.trAssume(c.E)
					if err != nil {
						g.errorf("%s: loop %d invariant [%s]: %v", g.name, ord, c.Label, err)
						continue
					}
					cur.assume(t)
				}
			} else {
				// no invariant given: the loop is cut with the invariant "true" (everything it may
				// modify is unknown afterwards) - sound, and usually too weak for what follows
				g.used[fmt.Sprintf("note:loop %d of %s has no invariant and is cut with 'true'", ord, fn.Name())] = true
			}
		}

		// instructions
		terminated := false
		for _, ins := range b.Instrs {
			if terminated {
				break
			}
			switch x := ins.(type) {
			case *ssa.Phi, *ssa.DebugRef:
				continue
			case *ssa.If:
				c := g.sval(fr, x.Cond)
				for i, s := range b.Succs {
					cond := c
					if i == 1 {
						cond = not(c)
					}
					g.flow(fr, b, s, cur, st, []string{cond}, in, hdr)
				}
				terminated = true
			case *ssa.Jump:
				g.flow(fr, b, b.Succs[0], cur, st, nil, in, hdr)
				terminated = true
			case *ssa.Return:
				var rs []Val
				for _, r := range x.Results {
					rs = append(rs, g.val(fr, r))
				}
				exits = append(exits, exitRec{n: cur, st: st, results: rs, block: b, idx: instrIndexOf(b, ins)})
				terminated = true
			case *ssa.Panic:
				if fr.inDefer {
					cur.assume("false")
				} else {
					g.panicPreds = append(g.panicPreds, predRec{nil, cur, st.clone(), nil})
				}
				terminated = true
			default:
				cur = g.execInstr(fr, cur, st, ins)
			}
		}
	}
	return exits
}

func instrIndexOf(b *ssa.BasicBlock, in ssa.Instruction) int {
	for i, x := range b.Instrs {
		if x == in {
			return i
		}
	}
	return len(b.Instrs)
}

func firstPos(b *ssa.BasicBlock) token.Pos {
	for _, in := range b.Instrs {
		if _, ok := in.(*ssa.DebugRef); ok {
			continue
		}
		if in.Pos().IsValid() {
			return in.Pos()
		}
	}
	return token.NoPos
}

func (g *gen) havocLoopVar(n *node, st, before *State, name string) {
	if strings.HasPrefix(name, "$defer.") {
		return
	}
	srt := g.allVars[name]
	if srt == "" {
		return
	}
	old := g.svGet(before, name, srt)
	nv := g.svFresh(st, name, srt)
	if name == "$nxt" {
		n.assume(app(">=", nv, old))
	}
}

func (g *gen) loopSpecFor(fr *frame, ord int) *LoopSpec {
	if fr.top {
		if ls := g.fs.Loops[ord]; ls != nil {
			return ls
		}
		if d := g.donorFor(fr, ord); d != nil {
			return d.ls
		}
		return nil
	}
	if fs := g.P.spec.Funcs[funcKey(fr.fn)]; fs != nil {
		return fs.Loops[ord]
	}
	// A loop of an uncontracted helper that is executed in place: the loop clauses of the function under
	// contract apply to it, numbered after that function's own loops (so that moving a loop into a
	// helper, or back, keeps the proof).
	if g.fn != nil {
		own := len(computeLoops(g.fn, g.P.sprog.Fset).headers)
		return g.fs.Loops[own+ord]
	}
	return nil
}

func (g *gen) assertInvariants(fr *frame, n *node, st *State, h *ssa.BasicBlock, ord int, ls *LoopSpec, pv map[*ssa.Phi]Val, which string, conds []string) {
	if ls == nil {
		return
	}
	e := g.topEnv(st, &State{m: map[string]string{}}, nil)
	for k, v := range g.loopEnvVars(fr, h, pv, st) {
		e.vars[k] = v
	}
	for _, c := range ls.Invs {
		t, err := e.trAssert(c.E)
		if err != nil {
			g.errorf("%s: loop %d invariant [%s]: %v", g.name, ord, c.Label, err)
			continue
		}
		g.addObl(n, "inv-"+which, fmt.Sprintf("inv:%d:%s:%s", ord, which, c.Label), c.Src, c.Where, implies(and(conds...), t), false)
	}
}

type hdrRec struct {
	st      *State
	phiVals map[*ssa.Phi]Val
	before  *State
	excl    map[string][]string
	whole   map[string]bool
}

func skipFrameVar(name string) bool {
	return strings.HasPrefix(name, "snap.") || strings.HasPrefix(name, "$defer.") || strings.HasPrefix(name, "$it.") || strings.HasPrefix(name, "L.") || name == "$nxt" || name == "$held"
}

// frameTerm: newT agrees with oldT on every pre-existing location that is not excluded.
func frameTerm(name, srt, newT, oldT, nxPre string, excl []string, pattern bool) string {
	if !strings.HasPrefix(srt, "(Array ") {
		return app("=", newT, oldT)
	}
	ks := arrayKeySort(srt)
	var conds []string
	if ks == "Ref" {
		conds = append(conds, app("<", app("rootid", "fr"), nxPre))
	} else if ks == "Int" && name == "$bytes" {
		conds = append(conds, app("<", "fr", nxPre))
	}
	for _, x := range excl {
		conds = append(conds, not(x))
	}
	body := implies(and(conds...), app("=", app("select", newT, "fr"), app("select", oldT, "fr")))
	if pattern {
		return fmt.Sprintf("(forall ((fr %s)) (! %s :pattern ((select %s fr))))", ks, body, newT)
	}
	return fmt.Sprintf("(forall ((fr %s)) %s)", ks, body)
}

// loopModifiesExcl evaluates a loop's modifies clause: per state map, the conditions (over
// the bound variable fr) describing locations the loop may write; whole[name]: anything.
func (g *gen) loopModifiesExcl(e *env, ls *LoopSpec, ord int) (map[string][]string, map[string]bool) {
	excl := map[string][]string{}
	whole := map[string]bool{}
	for _, ml := range ls.Modifies {
		if strings.HasPrefix(ml.All, "cells(") {
			if name, srt, ok := g.cellsVar(ml.All, g.fs.PkgPath, g.fs.Imports); ok {
				g.noteVar(name, srt)
				whole[name] = true
			} else {
				g.errorf("%s: loop %d modifies %s: cannot resolve type", g.name, ord, ml.Src)
			}
			continue
		}
		if strings.Contains(ml.All, "::") {
			parts := strings.SplitN(ml.All, "::", 2)
			xt, err := g.resolveType(&TypeExpr{Kind: "name", Name: strings.TrimSpace(parts[0])}, g.fs.PkgPath, g.fs.Imports)
			if err == nil && xt.T != nil {
				if name, srt, ok := g.fieldVar(xt.T, strings.TrimSpace(parts[1])); ok {
					g.noteVar(name, srt)
					whole[name] = true
					continue
				}
			}
			g.errorf("%s: loop %d modifies %s: cannot resolve", g.name, ord, ml.Src)
			continue
		}
		if ml.All == "elems" {
			v, xt, err := e.tr(ml.E)
			if err != nil || xt.T == nil {
				g.errorf("%s: loop %d modifies %s: %v", g.name, ord, ml.Src, err)
				continue
			}
			sl, ok := xt.T.Underlying().(*types.Slice)
			if !ok {
				g.errorf("%s: loop %d modifies %s: not a slice", g.name, ord, ml.Src)
				continue
			}
			var lms []leafMap
			g.leafMaps(sl.Elem(), nil, &lms)
			for _, lm := range lms {
				g.noteVar(lm.name, lm.sort)
				excl[lm.name] = append(excl[lm.name], app("=", app("rootid", "fr"), app("sbase", v.(string))))
			}
			continue
		}
		switch x := ml.E.(type) {
		case *EIdent:
			whole[x.Name] = true
		case *EIndex:
			if id, ok := x.X.(*EIdent); ok {
				k, _, err := e.tr(x.I)
				if err != nil {
					g.errorf("%s: loop %d modifies %s: %v", g.name, ord, ml.Src, err)
					continue
				}
				excl[id.Name] = append(excl[id.Name], app("=", "fr", k.(string)))
			}
		case *ESel:
			base, bxt, err := e.tr(x.X)
			if err != nil {
				g.errorf("%s: loop %d modifies %s: %v", g.name, ord, ml.Src, err)
				continue
			}
			var st0 types.Type
			if t, ok := derefStruct(bxt.T); ok {
				st0 = t
			} else if bxt.T != nil {
				st0 = bxt.T
				if p, ok := st0.Underlying().(*types.Pointer); ok {
					st0 = p.Elem()
				}
			}
			if st0 == nil {
				g.errorf("%s: loop %d modifies %s: base is not an object", g.name, ord, ml.Src)
				continue
			}
			if name, _, ok := g.fieldVar(st0, x.Sel); ok {
				excl[name] = append(excl[name], app("=", "fr", base.(string)))
			} else {
				g.errorf("%s: loop %d modifies %s: unknown field", g.name, ord, ml.Src)
			}
		default:
			g.errorf("%s: loop %d modifies %s: unsupported location", g.name, ord, ml.Src)
		}
	}
	return excl, whole
}

// flow records the transfer from block b to successor s (or checks the invariant on a back edge).
func (g *gen) flow(fr *frame, b, s *ssa.BasicBlock, cur *node, st *State, conds []string, in map[*ssa.BasicBlock][]predRec, hdr map[*ssa.BasicBlock]*hdrRec) {
	li := fr.li
	if li.back[[2]*ssa.BasicBlock{b, s}] {
		ord := li.headers[s]
		loopID := fmt.Sprintf("%s#%d", fr.fn.Name(), ord)
		h := hdr[s]
		if h == nil {
			g.errorf("%s: back edge to unprocessed header", g.name)
			return
		}
		// record modified variables
		mods := g.loopModsN[loopID]
		if mods == nil {
			mods = map[string]bool{}
			g.loopModsN[loopID] = mods
		}
		for name, srt := range g.allVars {
			if g.svGet(st, name, srt) != g.svGet(h.st, name, srt) {
				mods[name] = true
			}
		}
		pv := map[*ssa.Phi]Val{}
		idx := -1
		for i, p := range s.Preds {
			if p == b {
				idx = i
			}
		}
		for _, ins := range s.Instrs {
			if phi, ok := ins.(*ssa.Phi); ok {
				pv[phi] = g.val(fr, phi.Edges[idx])
			}
		}
		// the invariant is evaluated with the header phis bound to the incoming values
		saved := map[*ssa.Phi]Val{}
		for phi := range pv {
			saved[phi] = fr.vals[phi]
		}
		ls := g.loopSpecFor(fr, ord)
		g.assertInvariants(fr, cur, st, s, ord, ls, pv, "preserved", conds)
		if ls != nil && ls.HasModifies {
			g.checkLoopFrame(cur, st, h.st, h.excl, h.whole, fmt.Sprintf("loopframe:%d", ord), g.pos(firstPos(s)), conds)
		}
		return
	}
	in[s] = append(in[s], predRec{b, cur, st.clone(), conds})
}

// Loop frames are stated for locations that existed when the function was entered (that is what
// the function-level frame needs); locations allocated by the function are covered by invariants.
func (g *gen) assumeLoopFrame(n *node, st, before *State, excl map[string][]string, whole map[string]bool) {
	nx0 := g.c.declareConst("$nxt@init", "Int")
	var names []string
	for name := range g.allVars {
		names = append(names, name)
	}
	sort.Strings(names)
	for _, name := range names {
		srt := g.allVars[name]
		nt, ot := g.svGet(st, name, srt), g.svGet(before, name, srt)
		if nt == ot || whole[name] || skipFrameVar(name) {
			continue
		}
		n.assume(frameTerm(name, srt, nt, ot, nx0, excl[name], true))
	}
}

func (g *gen) checkLoopFrame(n *node, st, hst *State, excl map[string][]string, whole map[string]bool, prefix, pos string, conds []string) {
	nx0 := g.c.declareConst("$nxt@init", "Int")
	var names []string
	for name := range g.allVars {
		names = append(names, name)
	}
	sort.Strings(names)
	for _, name := range names {
		srt := g.allVars[name]
		nt, ot := g.svGet(st, name, srt), g.svGet(hst, name, srt)
		if nt == ot || whole[name] || skipFrameVar(name) {
			continue
		}
		g.addObl(n, "loop-frame", prefix+":"+name, "loop modifies clause", pos, implies(and(conds...), frameTerm(name, srt, nt, ot, nx0, excl[name], false)), false)
	}
}

func isIntType(t types.Type) bool {
	b, ok := t.Underlying().(*types.Basic)
	return ok && b.Info()&types.IsInteger != 0
}

// ---- tolerance against renamed locals ----
// Contract clauses (loop invariants, ensures_local, precall) may name local variables. `pikevc pin`
// records, for every local name of every function under contract, its type and how its values are
// produced (result k of a call to f, phi, parameter, cell ...). When a recorded name no longer exists in
// the function, and exactly one NEW name of the same type is produced in (at least) the same ways, the
// old name is bound to it: a pure rename keeps the proof.

type localSig struct {
	Type string   `json:"type"`
	Sig  []string `json:"sig"`
}

func localSigs(fn *ssa.Function) map[string]localSig {
	out := map[string]localSig{}
	describe := func(v ssa.Value) string {
		switch x := v.(type) {
		case *ssa.Extract:
			if c, ok := x.Tuple.(*ssa.Call); ok {
				if sc := c.Call.StaticCallee(); sc != nil {
					return fmt.Sprintf("extract%d:%s", x.Index, funcKey(sc))
				}
				if c.Call.IsInvoke() {
					return fmt.Sprintf("extract%d:%s", x.Index, c.Call.Method.Name())
				}
			}
			return fmt.Sprintf("extract%d", x.Index)
		case *ssa.Call:
			if sc := x.Call.StaticCallee(); sc != nil {
				return "call:" + funcKey(sc)
			}
			if x.Call.IsInvoke() {
				return "call:" + x.Call.Method.Name()
			}
			if b, ok := x.Call.Value.(*ssa.Builtin); ok {
				return "builtin:" + b.Name()
			}
			return "call"
		case *ssa.Phi:
			return "phi"
		case *ssa.Parameter:
			return "param"
		case *ssa.Const:
			return "const"
		case *ssa.UnOp:
			return "unop:" + x.Op.String()
		case *ssa.BinOp:
			return "binop:" + x.Op.String()
		}
		return fmt.Sprintf("%T", v)
	}
	for name, vals := range localNames(fn) {
		ls := localSig{}
		seen := map[string]bool{}
		for _, v := range vals {
			if ls.Type == "" {
				ls.Type = types.TypeString(v.Type(), nil)
			}
			d := describe(v)
			if !seen[d] {
				seen[d] = true
				ls.Sig = append(ls.Sig, d)
			}
		}
		sort.Strings(ls.Sig)
		out[name] = ls
	}
	for name, a := range addrLocals(fn) {
		ls := out[name]
		if ls.Type == "" {
			ls.Type = types.TypeString(a.Type().Underlying().(*types.Pointer).Elem(), nil)
		}
		ls.Sig = append(ls.Sig, "cell")
		sort.Strings(ls.Sig)
		out[name] = ls
	}
	return out
}

// ---- borrowed loop clauses ----
// A loop of the function under contract that has no clauses of its own (typically: a helper with a
// loop was inlined by hand) borrows the loop clauses of another contract of the same package, provided
// every name those clauses mention resolves here - directly, or through the recorded type/provenance of
// the donor's locals. A wrong donor can only make obligations fail, never pass: the borrowed invariants
// are asserted at loop entry and at the back edge like any others.
type donorRec struct {
	ls    *LoopSpec
	alias map[string]string // donor local name -> local name of this function
	from  string
}

func exprIdents(e Expr, bound map[string]bool, out map[string]bool) {
	switch x := e.(type) {
	case *EIdent:
		if !bound[x.Name] {
			out[x.Name] = true
		}
	case *EUn:
		exprIdents(x.X, bound, out)
	case *EBin:
		exprIdents(x.L, bound, out)
		exprIdents(x.R, bound, out)
	case *ECall:
		for _, a := range x.Args {
			exprIdents(a, bound, out)
		}
	case *EIndex:
		exprIdents(x.X, bound, out)
		exprIdents(x.I, bound, out)
	case *ESel:
		exprIdents(x.X, bound, out)
	case *EIte:
		exprIdents(x.C, bound, out)
		exprIdents(x.A, bound, out)
		exprIdents(x.B, bound, out)
	case *EOld:
		exprIdents(x.X, bound, out)
	case *EAt:
		exprIdents(x.X, bound, out)
	case *EQuant:
		nb := map[string]bool{}
		for k := range bound {
			nb[k] = true
		}
		for _, v := range x.Vars {
			nb[v.Name] = true
		}
		exprIdents(x.Body, nb, out)
		for _, p := range x.Patterns {
			exprIdents(p, nb, out)
		}
	}
}

func (g *gen) donorFor(fr *frame, ord int) *donorRec {
	if g.donors == nil {
		g.donors = map[int]*donorRec{}
	}
	if d, done := g.donors[ord]; done {
		return d
	}
	g.donors[ord] = nil
	if g.fs == nil || g.fn == nil {
		return nil
	}
	cur := localSigs(fr.fn)
	here := map[string]bool{}
	for n := range cur {
		here[n] = true
	}
	for _, p := range g.fs.Params {
		here[p.Name] = true
	}
	for _, r := range g.fs.Results {
		here[r.Name] = true
	}
	if g.fs.RecvName != "" {
		here[g.fs.RecvName] = true
	}
	pkg := g.P.tpkgs[g.fs.PkgPath]
	var keys []string
	for k, dfs := range g.P.spec.Funcs {
		if dfs != g.fs && dfs.PkgPath == g.fs.PkgPath && len(dfs.Loops) > 0 && !dfs.Assumed {
			keys = append(keys, k)
		}
	}
	sort.Strings(keys)
	for _, k := range keys {
		dfs := g.P.spec.Funcs[k]
		rec := g.P.localSigs[k]
		var ords []int
		for o := range dfs.Loops {
			ords = append(ords, o)
		}
		sort.Ints(ords)
		for _, o := range ords {
			dls := dfs.Loops[o]
			names := map[string]bool{}
			for _, c := range dls.Invs {
				exprIdents(c.E, map[string]bool{}, names)
			}
			for _, ml := range dls.Modifies {
				if ml.E != nil {
					exprIdents(ml.E, map[string]bool{}, names)
				}
			}
			alias := map[string]string{}
			ok := len(dls.Invs) > 0
			for n := range names {
				if strings.HasPrefix(n, "$") || here[n] {
					continue
				}
				if pkg != nil && pkg.Scope().Lookup(n) != nil {
					continue
				}
				osig, known := rec[n]
				if !known {
					ok = false
					break
				}
				var cands []string
				for cn, csig := range cur {
					if csig.Type != osig.Type {
						continue
					}
					have := map[string]bool{}
					for _, d := range csig.Sig {
						have[d] = true
					}
					sup := true
					for _, d := range osig.Sig {
						if !have[d] && d != "const" && d != "param" {
							sup = false
						}
					}
					if sup {
						cands = append(cands, cn)
					}
				}
				if len(cands) != 1 {
					ok = false
					break
				}
				alias[n] = cands[0]
			}
			if ok {
				d := &donorRec{ls: dls, alias: alias, from: fmt.Sprintf("loop %d of %s", o, shortKey(k))}
				g.donors[ord] = d
				g.used[fmt.Sprintf("note:loop %d of %s has no clauses of its own and borrows those of %s", ord, fr.fn.Name(), d.from)] = true
				return d
			}
		}
	}
	return nil
}

func (g *gen) aliasRenamed(fr *frame, out map[string]binding) {
	if fr.top {
		for _, d := range g.donors {
			if d == nil {
				continue
			}
			for dn, cn := range d.alias {
				if _, bound := out[dn]; !bound {
					if b, ok := out[cn]; ok {
						out[dn] = b
					}
				}
			}
		}
	}
	rec := g.P.localSigs[funcKey(fr.fn)]
	if len(rec) == 0 {
		return
	}
	cur := localSigs(fr.fn)
	for old, osig := range rec {
		if _, still := cur[old]; still {
			continue
		}
		if _, bound := out[old]; bound {
			continue
		}
		var cands []string
		for name, csig := range cur {
			if _, known := rec[name]; known || csig.Type != osig.Type {
				continue
			}
			have := map[string]bool{}
			for _, d := range csig.Sig {
				have[d] = true
			}
			ok := true
			for _, d := range osig.Sig {
				if !have[d] && d != "const" {
					ok = false
				}
			}
			if ok {
				cands = append(cands, name)
			}
		}
		if len(cands) == 1 {
			if b, ok := out[cands[0]]; ok {
				out[old] = b
				g.used[fmt.Sprintf("note:local %q of %s is now called %q (bound by type and provenance)", old, fr.fn.Name(), cands[0])] = true
			}
		}
	}
}
