package main

// VC generation: go/ssa function -> passive guarded-command graph -> SMT-LIB.

import (
	"fmt"
	"go/constant"
	"go/token"
	"go/types"
	"regexp"
	"sort"
	"strings"

	"golang.org/x/tools/go/ssa"
)

type obligation struct {
	Name   string
	Kind   string // ensures, requires-callee, inv-entry, inv-preserved, nil, bounds, guard, ...
	Clause string
	Pos    string
	idx    int
	Safety bool
}

type cmd struct {
	obl *obligation // nil: assume
	t   string
}

type edge struct {
	to    *node
	conds []string
}

type node struct {
	id    int
	cmds  []cmd
	succs []*edge
	note  string
}

func (n *node) assume(t string) {
	if t == "true" || t == "" {
		return
	}
	n.cmds = append(n.cmds, cmd{nil, t})
}

type predRec struct {
	from  *ssa.BasicBlock
	n     *node
	st    *State
	conds []string
}

type exitRec struct {
	n       *node
	st      *State
	results []Val
	block   *ssa.BasicBlock
	idx     int
}

type frame struct {
	fn       *ssa.Function
	vals     map[ssa.Value]Val
	top      bool
	li       *loopInfo
	closures map[ssa.Value]*ssa.MakeClosure
	inDefer  bool
}

type loopInfo struct {
	headers map[*ssa.BasicBlock]int // header -> ordinal
	body    map[*ssa.BasicBlock]map[*ssa.BasicBlock]bool
	back    map[[2]*ssa.BasicBlock]bool
	order   []*ssa.BasicBlock
}

type gen struct {
	P    *Program
	fn   *ssa.Function
	fs   *FuncSpec
	c    *smtCtx
	key  string
	name string // short name

	nodes     []*node
	obls      []*obligation
	oblNames  map[string]int
	allVars   map[string]string
	newVars   bool
	loopMods  map[string]map[string]bool // loop id -> modified vars
	loopModsN map[string]map[string]bool // collected this pass
	errs      []string
	warns     []string

	panicPreds []predRec
	deferSites []*ssa.Defer
	deferIdx   map[*ssa.Defer]int
	counters   map[string]int
	used       map[string]bool // assumed contracts / pure callees used
	entry      *node
	topFrame   *frame
	globalAx   []string
	lockSites  int
	snapNames  map[string]bool
	loopInfos  map[*ssa.Function]*loopInfo
	initNxt    string
	paramBind  map[string]binding
	axiomsDone bool

	inTypeInv   bool
	localCell   map[string]string
	fieldRefs   map[string]*fieldAccess
	immMaps     map[string]bool
	pureCache   map[*SpecFunc]bool
	finalVals   map[*ssa.FreeVar]Val
	spawning    bool // the call being executed is the operand of a go statement
	donors      map[int]*donorRec // borrowed loop clauses (exec.go), per loop ordinal of the function under contract
	known       map[string]Finding
	hide        func(name string) bool // spec functions kept uninterpreted (lemma proofs with hide/except)
	canaryDone  bool
	lockSiteOrd map[interface{}]int
	inPanicExit bool
	inlineDepth int
	iters       map[*ssa.Range]*iterInfo
}

func (g *gen) errorf(format string, args ...interface{}) {
	g.errs = append(g.errs, fmt.Sprintf(format, args...))
}

func (g *gen) newNode(note string) *node {
	n := &node{id: len(g.nodes), note: note}
	g.nodes = append(g.nodes, n)
	return n
}

func (g *gen) pos(p token.Pos) string {
	if !p.IsValid() {
		return ""
	}
	ps := g.P.sprog.Fset.Position(p)
	return fmt.Sprintf("%s:%d", strings.TrimPrefix(ps.Filename, "/repo/"), ps.Line)
}

// addObl registers an assertion. Names are made unique by an ordinal suffix per base name.
func (g *gen) addObl(n *node, kind, base, clause, pos, term string, safety bool) {
	k := g.oblNames[base]
	g.oblNames[base] = k + 1
	name := base
	if k > 0 || safety {
		name = fmt.Sprintf("%s#%d", base, k)
	}
	o := &obligation{Name: g.name + "/" + name, Kind: kind, Clause: clause, Pos: pos, idx: len(g.obls), Safety: safety}
	g.obls = append(g.obls, o)
	n.cmds = append(n.cmds, cmd{o, term})
}

// ---- loops ----

func computeLoops(fn *ssa.Function, fset *token.FileSet) *loopInfo {
	li := &loopInfo{headers: map[*ssa.BasicBlock]int{}, body: map[*ssa.BasicBlock]map[*ssa.BasicBlock]bool{}, back: map[[2]*ssa.BasicBlock]bool{}}
	for _, b := range fn.Blocks {
		for _, s := range b.Succs {
			if s.Dominates(b) {
				li.back[[2]*ssa.BasicBlock{b, s}] = true
				if li.body[s] == nil {
					li.body[s] = map[*ssa.BasicBlock]bool{s: true}
				}
				// natural loop: nodes reaching b without passing s
				var stack []*ssa.BasicBlock
				if !li.body[s][b] {
					li.body[s][b] = true
					stack = append(stack, b)
				}
				for len(stack) > 0 {
					x := stack[len(stack)-1]
					stack = stack[:len(stack)-1]
					for _, p := range x.Preds {
						if !li.body[s][p] {
							li.body[s][p] = true
							stack = append(stack, p)
						}
					}
				}
			}
		}
	}
	// ordinals by minimal source position within the loop
	type hp struct {
		h   *ssa.BasicBlock
		pos token.Pos
		sz  int
	}
	var hs []hp
	for h, body := range li.body {
		min := token.Pos(1 << 60)
		for b := range body {
			for _, in := range b.Instrs {
				if _, ok := in.(*ssa.DebugRef); ok {
					continue
				}
				if p := in.Pos(); p.IsValid() && p < min {
					min = p
				}
			}
		}
		hs = append(hs, hp{h, min, len(body)})
	}
	sort.Slice(hs, func(i, j int) bool {
		if hs[i].pos != hs[j].pos {
			return hs[i].pos < hs[j].pos
		}
		return hs[i].sz > hs[j].sz
	})
	for i, x := range hs {
		li.headers[x.h] = i
	}
	// topological order ignoring back edges (reverse postorder)
	seen := map[*ssa.BasicBlock]bool{}
	var post []*ssa.BasicBlock
	var dfs func(b *ssa.BasicBlock)
	dfs = func(b *ssa.BasicBlock) {
		seen[b] = true
		for _, s := range b.Succs {
			if li.back[[2]*ssa.BasicBlock{b, s}] || seen[s] {
				continue
			}
			dfs(s)
		}
		post = append(post, b)
	}
	if len(fn.Blocks) > 0 {
		dfs(fn.Blocks[0])
	}
	for i := len(post) - 1; i >= 0; i-- {
		li.order = append(li.order, post[i])
	}
	return li
}

// ---- values ----

func (g *gen) constVal(c *ssa.Const) Val {
	t := c.Type()
	if c.Value == nil {
		return g.zeroVal(t)
	}
	switch c.Value.Kind() {
	case constant.Bool:
		return fmt.Sprint(constant.BoolVal(c.Value))
	case constant.String:
		return g.c.strLit(constant.StringVal(c.Value))
	case constant.Int:
		if sortOf(t) == "Real" {
			return smtInt(c.Value.ExactString()) + ".0"
		}
		return smtInt(c.Value.ExactString())
	case constant.Float:
		if sortOf(t) == "Int" {
			if i, ok := constant.Int64Val(constant.ToInt(c.Value)); ok {
				return smtInt(fmt.Sprint(i))
			}
		}
		return g.c.fresh("fconst", "Real")
	}
	return g.c.fresh("const", sortOf(t))
}

func (g *gen) val(fr *frame, v ssa.Value) Val {
	switch x := v.(type) {
	case *ssa.Const:
		return g.constVal(x)
	case *ssa.Global:
		return fmt.Sprintf("(glob %d)", g.c.globalID(x.Pkg.Pkg.Path()+"."+x.Name()))
	case *ssa.Function:
		return fmt.Sprintf("(glob %d)", g.c.globalID("func:"+x.String()))
	case *ssa.Builtin:
		return "null"
	}
	if r, ok := fr.vals[v]; ok {
		return r
	}
	g.errorf("value %s (%T) used before definition in %s", v.Name(), v, fr.fn.Name())
	r, _ := g.freshVal("undef", v.Type(), nil)
	fr.vals[v] = r
	return r
}

func (g *gen) sval(fr *frame, v ssa.Value) string {
	r := g.val(fr, v)
	if s, ok := r.(string); ok {
		return s
	}
	g.errorf("scalar expected for %s in %s", v.Name(), fr.fn.Name())
	return "0"
}

func eqVals(a, b Val) []string {
	switch x := a.(type) {
	case string:
		if y, ok := b.(string); ok {
			if x == y {
				return nil
			}
			return []string{app("=", x, y)}
		}
	case *SV:
		if y, ok := b.(*SV); ok {
			var out []string
			for i := range x.F {
				out = append(out, eqVals(x.F[i], y.F[i])...)
			}
			return out
		}
	case *TV:
		if y, ok := b.(*TV); ok {
			var out []string
			for i := range x.E {
				out = append(out, eqVals(x.E[i], y.E[i])...)
			}
			return out
		}
	}
	return nil
}

func (g *gen) isMutableGlobal(key string) bool { return g.P.mutGlobals[key] }

func (g *gen) loadGlobal(st *State, key string, t types.Type) Val {
	ref := fmt.Sprintf("(glob %d)", g.c.globalID(key))
	if g.isMutableGlobal(key) {
		return g.loadAt(st, ref, t)
	}
	// written only by package initialisation: a constant of the run
	if _, ok := isStruct(t); ok {
		return g.loadAt(&State{m: map[string]string{}}, ref, t)
	}
	name := "gv." + sanitize(key)
	first := !g.c.declared[name]
	g.c.declareConst(name, sortOf(t))
	if first {
		for _, a := range g.typeInv(name, t, nil) {
			g.globalAx = append(g.globalAx, a)
		}
		if s := sortOf(t); s == "Ref" || s == "Slice" {
			nx := g.c.declareConst("$nxt@init", "Int")
			if s == "Ref" {
				g.globalAx = append(g.globalAx, app("<", app("rootid", name), nx))
			} else {
				g.globalAx = append(g.globalAx, app("<", app("sbase", name), nx))
			}
		}
	}
	return name
}

func (g *gen) makeIface(n *node, t types.Type, v Val) string {
	if _, ok := t.Underlying().(*types.Interface); ok {
		return v.(string)
	}
	s, ok := v.(string)
	if !ok {
		// struct boxed into an interface: opaque
		return g.c.fresh("boxed", "Iface")
	}
	mk, un := g.c.boxFn(sortOf(t))
	tag := fmt.Sprint(g.c.typeTag(t))
	term := app(mk, tag, s)
	fact := and(app("=", app("itag", term), tag), app("=", app(un, term), s), not(app("=", term, "inil")))
	if n != nil {
		n.assume(fact)
	}
	// without a node (inside contract expressions) the quantified box/unbox axioms of the prelude apply
	return term
}

// snapView: a state whose variables are the snapshot copies taken at a label.
func (g *gen) snapView(st *State, label string) *State {
	g.snapNames[label] = true
	v := &State{m: map[string]string{}}
	prefix := "snap." + label + "."
	for name, sort := range g.allVars {
		if strings.HasPrefix(name, "snap.") {
			continue
		}
		sn := prefix + name
		if t, ok := st.m[sn]; ok {
			v.m[name] = t
		} else {
			g.noteVar(sn, sort)
			v.m[name] = g.c.declareConst(sanitize(sn)+"@init", sort)
		}
	}
	return v
}

func (g *gen) takeSnapshot(st *State, label string) {
	prefix := "snap." + label + "."
	names := make([]string, 0, len(g.allVars))
	for name := range g.allVars {
		names = append(names, name)
	}
	for _, name := range names {
		if strings.HasPrefix(name, "snap.") {
			continue
		}
		sort := g.allVars[name]
		g.svSet(st, prefix+name, sort, g.svGet(st, name, sort))
	}
}

// ---- joins ----

func (g *gen) joinPreds(preds []predRec, note string) (*node, *State) {
	n := g.newNode(note)
	if len(preds) == 1 {
		p := preds[0]
		p.n.succs = append(p.n.succs, &edge{n, p.conds})
		return n, p.st.clone()
	}
	st := &State{m: map[string]string{}}
	keys := map[string]bool{}
	for _, p := range preds {
		for k := range p.st.m {
			keys[k] = true
		}
	}
	var ks []string
	for k := range keys {
		ks = append(ks, k)
	}
	sort.Strings(ks)
	extra := make([][]string, len(preds))
	for _, k := range ks {
		srt := g.allVars[k]
		first := g.svGet(preds[0].st, k, srt)
		same := true
		for _, p := range preds[1:] {
			if g.svGet(p.st, k, srt) != first {
				same = false
				break
			}
		}
		if same {
			st.m[k] = first
			continue
		}
		nv := g.c.fresh(k, srt)
		st.m[k] = nv
		for i, p := range preds {
			extra[i] = append(extra[i], app("=", nv, g.svGet(p.st, k, srt)))
		}
	}
	for i, p := range preds {
		conds := append(append([]string{}, p.conds...), extra[i]...)
		p.n.succs = append(p.n.succs, &edge{n, conds})
	}
	return n, st
}

// ---- contract environments ----

func (g *gen) bindParams(fs *FuncSpec, fn *ssa.Function, sig *types.Signature, args []Val, results []Val, st, old *State) (*env, error) {
	e := &env{g: g, vars: map[string]binding{}, st: st, old: old, pkgPath: fs.PkgPath, imports: fs.Imports}
	i := 0
	if sig.Recv() != nil && fs.RecvName != "" {
		if len(args) == 0 {
			return nil, fmt.Errorf("contract %s: missing receiver argument", fs.Key)
		}
		e.vars[fs.RecvName] = binding{args[0], xtOf(sig.Recv().Type())}
		i = 1
	} else if sig.Recv() != nil {
		i = 1
	} else if fs.RecvName != "" && len(args) == sig.Params().Len()+1 {
		// functype contract bound to an owner object
		e.vars[fs.RecvName] = binding{args[0], XT{S: "Ref"}}
		if fs.RecvType != nil {
			if xt, err := g.resolveType(fs.RecvType, fs.PkgPath, fs.Imports); err == nil {
				e.vars[fs.RecvName] = binding{args[0], xt}
			}
		}
		i = 1
	}
	if len(fs.Params) != sig.Params().Len() {
		return nil, fmt.Errorf("contract %s declares %d parameters, function has %d", fs.Key, len(fs.Params), sig.Params().Len())
	}
	for j, p := range fs.Params {
		if i+j >= len(args) {
			return nil, fmt.Errorf("contract %s: too few arguments", fs.Key)
		}
		e.vars[p.Name] = binding{args[i+j], xtOf(sig.Params().At(j).Type())}
	}
	if fn != nil {
		for k, fv := range fn.FreeVars {
			_ = k
			// free variables are bound by name by the caller of bindParams (top-level only)
			_ = fv
		}
	}
	if results != nil {
		if len(fs.Results) != sig.Results().Len() {
			return nil, fmt.Errorf("contract %s declares %d results, function has %d", fs.Key, len(fs.Results), sig.Results().Len())
		}
		for j, r := range fs.Results {
			e.vars[r.Name] = binding{results[j], xtOf(sig.Results().At(j).Type())}
		}
	}
	return e, nil
}

// havocModifies applies the callee's modifies clause to st.
func (g *gen) havocModifies(n *node, fs *FuncSpec, e *env, st *State) {
	for _, ml := range fs.Modifies {
		if ml.All == "heap" {
			g.havocHeap(n, st)
			continue
		}
		if ml.All == "pointee" {
			g.havocPointee(n, e, st, ml.E, fs.Key)
			continue
		}
		if strings.HasPrefix(ml.All, "cells(") {
			if name, srt, ok := g.cellsVar(ml.All, fs.PkgPath, fs.Imports); ok {
				g.svFresh(st, name, srt)
			} else {
				g.errorf("%s: modifies %s: cannot resolve type", fs.Key, ml.Src)
			}
			continue
		}
		if ml.All != "" {
			// T::f
			parts := strings.SplitN(ml.All, "::", 2)
			xt, err := g.resolveType(&TypeExpr{Kind: "name", Name: strings.TrimSpace(parts[0])}, fs.PkgPath, fs.Imports)
			if err != nil || xt.T == nil {
				g.errorf("%s: modifies %s: %v", fs.Key, ml.Src, err)
				continue
			}
			name, srt, ok := g.fieldVar(xt.T, strings.TrimSpace(parts[1]))
			if !ok {
				g.errorf("%s: modifies %s: unknown field", fs.Key, ml.Src)
				continue
			}
			g.svFresh(st, name, srt)
			continue
		}
		g.havocLoc(n, e, st, ml.E, fs.Key)
	}
}

// cellsVar resolves "cells(T)" to the cell map of Go type T.
func (g *gen) cellsVar(loc, pkgPath string, imports map[string]string) (string, string, bool) {
	txt := strings.TrimSuffix(strings.TrimPrefix(loc, "cells("), ")")
	toks, err := lex(txt)
	if err != nil {
		return "", "", false
	}
	pp := &parser{toks: toks, src: txt}
	te, err := pp.typeExpr()
	if err != nil {
		return "", "", false
	}
	xt, err := g.resolveType(te, pkgPath, imports)
	if err != nil || xt.T == nil {
		return "", "", false
	}
	return cellMapName(xt.T), "(Array Ref " + sortOf(xt.T) + ")", true
}

func (g *gen) fieldVar(structT types.Type, f string) (string, string, bool) {
	if s, ok := isStruct(structT); ok {
		for i := 0; i < s.NumFields(); i++ {
			if s.Field(i).Name() == f {
				return fieldMapName(structT, f), "(Array Ref " + sortOf(s.Field(i).Type()) + ")", true
			}
		}
	}
	if nt, ok := structT.(*types.Named); ok && nt.Obj().Pkg() != nil {
		if gd := g.P.spec.GhostFields[nt.Obj().Pkg().Path()+"."+nt.Obj().Name()+"."+f]; gd != nil {
			gxt, err := g.resolveType(gd.Type, gd.PkgPath, gd.Imports)
			if err == nil {
				ks := "Ref"
				if _, isS := isStruct(structT); !isS {
					ks = sortOf(structT)
				}
				return ghostFieldMapName(structT, f), "(Array " + ks + " " + gxt.S + ")", true
			}
		}
	}
	return "", "", false
}

func (g *gen) havocLoc(n *node, e *env, st *State, loc Expr, who string) {
	ee := *e
	ee.st = st
	switch x := loc.(type) {
	case *EIdent:
		if strings.HasPrefix(x.Name, "$") {
			if x.Name == "$nxt" {
				return
			}
			gd := g.P.spec.GhostVars[x.Name]
			if gd == nil {
				g.errorf("%s: modifies unknown ghost %s", who, x.Name)
				return
			}
			xt, err := g.resolveType(gd.Type, gd.PkgPath, gd.Imports)
			if err != nil {
				g.errorf("%s: %v", who, err)
				return
			}
			g.svFresh(st, x.Name, xt.S)
			return
		}
	case *EIndex:
		if id, ok := x.X.(*EIdent); ok && strings.HasPrefix(id.Name, "$") {
			gd := g.P.spec.GhostVars[id.Name]
			if gd == nil {
				g.errorf("%s: modifies unknown ghost %s", who, id.Name)
				return
			}
			xt, err := g.resolveType(gd.Type, gd.PkgPath, gd.Imports)
			if err != nil || xt.E == nil {
				g.errorf("%s: modifies %s: not a map", who, loc)
				return
			}
			k, _, err := ee.tr(x.I)
			if err != nil {
				g.errorf("%s: modifies %s: %v", who, loc, err)
				return
			}
			cur := g.svGet(st, id.Name, xt.S)
			fv := g.c.fresh(id.Name+".elt", xt.E.S)
			g.svAssign(n, st, id.Name, xt.S, app("store", cur, k.(string), fv))
			return
		}
		// x[*] : all elements of a slice -> havoc the element cell/field maps at that base
	case *ESel:
		if ref, et, ok := ee.trAddr(x.X); ok {
			// field of an embedded struct value
			name, srt, ok := g.fieldVar(et, x.Sel)
			if !ok {
				g.errorf("%s: modifies %s: unknown field", who, loc)
				return
			}
			cur := g.svGet(st, name, srt)
			fv := g.c.fresh(name+".elt", arrayElemSort(srt))
			g.svAssign(n, st, name, srt, app("store", cur, ref, fv))
			return
		}
		base, bxt, err := ee.tr(x.X)
		if err != nil {
			g.errorf("%s: modifies %s: %v", who, loc, err)
			return
		}
		var st0 types.Type
		if t, ok := derefStruct(bxt.T); ok {
			st0 = t
		} else if bxt.T != nil {
			st0 = bxt.T
			if p, ok := st0.Underlying().(*types.Pointer); ok {
				st0 = p.Elem()
			}
		}
		if st0 == nil {
			g.errorf("%s: modifies %s: base is not an object", who, loc)
			return
		}
		name, srt, ok := g.fieldVar(st0, x.Sel)
		if !ok {
			g.errorf("%s: modifies %s: unknown field", who, loc)
			return
		}
		cur := g.svGet(st, name, srt)
		// element sort is the last component of "(Array K V)"
		esort := arrayElemSort(srt)
		fv := g.c.fresh(name+".elt", esort)
		g.svAssign(n, st, name, srt, app("store", cur, base.(string), fv))
		return
	}
	g.errorf("%s: unsupported modifies location %s", who, loc)
}

var unboxRe = regexp.MustCompile(`^\(as_\w+ \(mk_\w+ [0-9]+ (.*)\)\)$`)

// pointeeTarget resolves what a pointer-typed contract expression points to: a struct field
// (when the pointer was produced by taking a field's address) or a cell.
func (g *gen) pointeeTarget(e *env, x Expr) (ref string, elem types.Type, fa *fieldAccess, err error) {
	v, xt, err := e.tr(x)
	if err != nil {
		return "", nil, nil, err
	}
	t, ok := v.(string)
	if !ok || xt.T == nil {
		return "", nil, nil, fmt.Errorf("pointee of a non-pointer")
	}
	pt, ok := xt.T.Underlying().(*types.Pointer)
	if !ok {
		return "", nil, nil, fmt.Errorf("pointee of non-pointer type %s", xt.T)
	}
	if m := unboxRe.FindStringSubmatch(t); m != nil {
		t = m[1]
	}
	if f, ok := g.fieldRefs[t]; ok {
		return t, pt.Elem(), f, nil
	}
	return t, pt.Elem(), nil, nil
}

func (g *gen) havocPointee(n *node, e *env, st *State, x Expr, who string) {
	ee := *e
	ee.st = st
	ref, elem, fa, err := g.pointeeTarget(&ee, x)
	if err != nil {
		g.errorf("%s: modifies pointee(%s): %v", who, x, err)
		return
	}
	if fa != nil {
		if lv, ok := g.localCell[fa.base+"#"+fa.field.Name()]; ok {
			g.svFresh(st, lv, sortOf(fa.field.Type()))
			return
		}
		name := fieldMapName(fa.structT, fa.field.Name())
		srt := "(Array Ref " + sortOf(fa.field.Type()) + ")"
		fv := g.c.fresh(name+".elt", sortOf(fa.field.Type()))
		g.svAssign(n, st, name, srt, app("store", g.svGet(st, name, srt), fa.base, fv))
		return
	}
	var lms []leafMap
	g.leafMaps(elem, nil, &lms)
	for _, lm := range lms {
		r := refPath(ref, lm.path)
		if lv, ok := g.localCell[r+"#"]; ok {
			g.svFresh(st, lv, arrayElemSort(lm.sort))
			continue
		}
		fv := g.c.fresh(lm.name+".elt", arrayElemSort(lm.sort))
		g.svAssign(n, st, lm.name, lm.sort, app("store", g.svGet(st, lm.name, lm.sort), r, fv))
	}
}

func arrayElemSort(s string) string {
	// "(Array K V)" with possibly nested V
	s = strings.TrimSuffix(strings.TrimPrefix(s, "(Array "), ")")
	depth := 0
	for i := 0; i < len(s); i++ {
		switch s[i] {
		case '(':
			depth++
		case ')':
			depth--
		case ' ':
			if depth == 0 {
				return s[i+1:]
			}
		}
	}
	return s
}

func arrayKeySort(s string) string {
	s = strings.TrimSuffix(strings.TrimPrefix(s, "(Array "), ")")
	depth := 0
	for i := 0; i < len(s); i++ {
		switch s[i] {
		case '(':
			depth++
		case ')':
			depth--
		case ' ':
			if depth == 0 {
				return s[:i]
			}
		}
	}
	return s
}

// havocHeap: everything shared (field maps, cells, non-local ghosts); thread-local ghosts survive.
func (g *gen) havocHeap(n *node, st *State) {
	var names []string
	for name := range g.allVars {
		names = append(names, name)
	}
	sort.Strings(names)
	for _, name := range names {
		if strings.HasPrefix(name, "snap.") || name == "$nxt" || name == "$held" || strings.HasPrefix(name, "L.") || strings.HasPrefix(name, "$defer.") || strings.HasPrefix(name, "$it.") {
			continue
		}
		if strings.HasPrefix(name, "$") {
			if gd := g.P.spec.GhostVars[name]; gd != nil && gd.Local {
				continue
			}
		}
		srt := g.allVars[name]
		old := g.svGet(st, name, srt)
		nv := g.svFresh(st, name, srt)
		if n != nil && g.immutableMap(name) {
			// fields declared immutable are never written after construction (checked at every store
			// in verified code): calls with arbitrary heap effects keep them on existing objects
			nx := g.svGet(st, "$nxt", "Int")
			n.assume(fmt.Sprintf("(forall ((r Ref)) (! (=> (< (rootid r) %s) (= (select %s r) (select %s r))) :pattern ((select %s r))))", nx, nv, old, nv))
		}
	}
}

// immutableMap: the state variable is the field map of a field declared immutable.
func (g *gen) immutableMap(name string) bool {
	if g.immMaps == nil {
		g.immMaps = map[string]bool{}
		for k := range g.P.spec.Immutable {
			// k = pkgpath.T.f ; field map name = H.<pkgname>.<T>.<f>
			i := strings.LastIndex(k, ".")
			j := strings.LastIndex(k[:i], ".")
			pkgPath, tn, fn := k[:j], k[j+1:i], k[i+1:]
			if tp := g.P.tpkgs[pkgPath]; tp != nil {
				if obj, ok := tp.Scope().Lookup(tn).(*types.TypeName); ok {
					g.immMaps[fieldMapName(obj.Type(), fn)] = true
				}
			}
		}
	}
	return g.immMaps[name]
}

// ---- emission ----

func (g *gen) emit(strMode bool) string { return g.emitOpt(strMode, false) }

func hasQuant(t string) bool { return strings.Contains(t, "(forall ") || strings.Contains(t, "(exists ") }

// emitOpt: stripQ drops quantified assumptions (used for reachability/smoke queries, where
// weakening the assumptions is sound for detecting contradictions among the rest).
func (g *gen) emitOpt(strMode bool, stripQ bool) string { return g.emitFull(strMode, stripQ, nil) }

// emitFull: noAssume lists obligations that are asserted but not assumed afterwards (used to
// re-check the remaining obligations independently of ones that failed).
func (g *gen) emitFull(strMode bool, stripQ bool, noAssume map[int]bool) string {
	var sb strings.Builder
	sb.WriteString("(set-option :produce-models true)\n(set-logic ALL)\n")
	sb.WriteString(preludeFor(strMode))
	if strMode {
		sb.WriteString("(define-fun strcat ((a Str) (b Str)) Str (str.++ a b))\n")
	} else {
		sb.WriteString(preludeStrAbstract)
		sb.WriteString("(declare-fun strcat (Str Str) Str)\n")
	}
	for _, d := range g.c.decls {
		sb.WriteString(d)
		sb.WriteByte('\n')
	}
	sb.WriteString(g.c.literalAxioms())
	for _, a := range g.globalAx {
		if stripQ && hasQuant(a) {
			continue
		}
		sb.WriteString("(assert " + a + ")\n")
	}
	for _, o := range g.obls {
		sb.WriteString(fmt.Sprintf("(declare-const chk%d Bool)\n", o.idx))
	}
	// post-order over the DAG
	seen := map[*node]bool{}
	var order []*node
	var dfs func(n *node)
	dfs = func(n *node) {
		seen[n] = true
		for _, e := range n.succs {
			if !seen[e.to] {
				dfs(e.to)
			}
		}
		order = append(order, n)
	}
	dfs(g.entry)
	for _, n := range order {
		var succ []string
		for _, e := range n.succs {
			succ = append(succ, implies(and(e.conds...), fmt.Sprintf("ok%d", e.to.id)))
		}
		rest := and(succ...)
		for i := len(n.cmds) - 1; i >= 0; i-- {
			c := n.cmds[i]
			if c.obl == nil {
				if stripQ && hasQuant(c.t) {
					continue
				}
				rest = implies(c.t, rest)
			} else if c.obl.Kind == "smoke" || c.obl.Kind == "canary" || c.obl.Kind == "finding" || noAssume[c.obl.idx] {
				// meta-obligations are never turned into assumptions
				rest = and(implies(fmt.Sprintf("chk%d", c.obl.idx), c.t), rest)
			} else if stripQ && hasQuant(c.t) {
				rest = and(implies(fmt.Sprintf("chk%d", c.obl.idx), c.t), rest)
			} else {
				rest = and(implies(fmt.Sprintf("chk%d", c.obl.idx), c.t), implies(c.t, rest))
			}
		}
		sb.WriteString(fmt.Sprintf("(define-fun ok%d () Bool %s)\n", n.id, rest))
	}
	sb.WriteString(fmt.Sprintf("(assert (not ok%d))\n", g.entry.id))
	return sb.String()
}

// emitTarget builds the query for one obligation, sliced to the part of the graph that can reach
// it: nodes that cannot reach the target and everything after the target are dropped; every
// other (real) assertion on the way is an assumption.
func (g *gen) emitTarget(strMode bool, stripQ bool, noAssume map[int]bool, target int) string {
	var tn *node
	ti := -1
	for _, n := range g.nodes {
		for i, c := range n.cmds {
			if c.obl != nil && c.obl.idx == target {
				tn, ti = n, i
			}
		}
	}
	if tn == nil {
		return g.queryFor(g.emitFull(strMode, stripQ, noAssume), target)
	}
	// backward reachability
	preds := map[*node][]*node{}
	for _, n := range g.nodes {
		for _, e := range n.succs {
			preds[e.to] = append(preds[e.to], n)
		}
	}
	reach := map[*node]bool{tn: true}
	stack := []*node{tn}
	for len(stack) > 0 {
		x := stack[len(stack)-1]
		stack = stack[:len(stack)-1]
		for _, p := range preds[x] {
			if !reach[p] {
				reach[p] = true
				stack = append(stack, p)
			}
		}
	}
	var sb strings.Builder
	sb.WriteString("(set-option :produce-models true)\n(set-logic ALL)\n")
	sb.WriteString(preludeFor(strMode))
	if strMode {
		sb.WriteString("(define-fun strcat ((a Str) (b Str)) Str (str.++ a b))\n")
	} else {
		sb.WriteString(preludeStrAbstract)
		sb.WriteString("(declare-fun strcat (Str Str) Str)\n")
	}
	for _, d := range g.c.decls {
		sb.WriteString(d)
		sb.WriteByte('\n')
	}
	sb.WriteString(g.c.literalAxioms())
	for _, a := range g.globalAx {
		if stripQ && hasQuant(a) {
			continue
		}
		sb.WriteString("(assert " + a + ")\n")
	}
	seen := map[*node]bool{}
	var order []*node
	var dfs func(n *node)
	dfs = func(n *node) {
		seen[n] = true
		for _, e := range n.succs {
			if !seen[e.to] && reach[e.to] {
				dfs(e.to)
			}
		}
		order = append(order, n)
	}
	if !reach[g.entry] {
		// unreachable target: trivially discharged
		sb.WriteString("(assert false)\n(check-sat)\n")
		return sb.String()
	}
	dfs(g.entry)
	for _, n := range order {
		rest := "true"
		last := len(n.cmds) - 1
		if n == tn {
			last = ti
		} else {
			var succ []string
			for _, e := range n.succs {
				if reach[e.to] {
					succ = append(succ, implies(and(e.conds...), fmt.Sprintf("ok%d", e.to.id)))
				}
			}
			rest = and(succ...)
		}
		for i := last; i >= 0; i-- {
			c := n.cmds[i]
			switch {
			case c.obl == nil:
				if stripQ && hasQuant(c.t) {
					continue
				}
				rest = implies(c.t, rest)
			case n == tn && i == ti:
				rest = c.t
			case c.obl.Kind == "smoke" || c.obl.Kind == "canary" || c.obl.Kind == "finding" || noAssume[c.obl.idx]:
			case stripQ && hasQuant(c.t):
			default:
				rest = implies(c.t, rest)
			}
		}
		sb.WriteString(fmt.Sprintf("(define-fun ok%d () Bool %s)\n", n.id, rest))
	}
	sb.WriteString(fmt.Sprintf("(assert (not ok%d))\n(check-sat)\n(get-model)\n", g.entry.id))
	return sb.String()
}

// query text for one obligation (or for the smoke test when idx < 0)
func (g *gen) queryFor(base string, idx int) string {
	var sb strings.Builder
	sb.WriteString(base)
	for _, o := range g.obls {
		if o.idx == idx {
			sb.WriteString(fmt.Sprintf("(assert chk%d)\n", o.idx))
		} else {
			sb.WriteString(fmt.Sprintf("(assert (not chk%d))\n", o.idx))
		}
	}
	sb.WriteString("(check-sat)\n(get-model)\n")
	return sb.String()
}

// ---- helpers used by the instruction semantics ----

func (g *gen) counter(k string) int {
	v := g.counters[k]
	g.counters[k] = v + 1
	return v
}

func namedStructKey(t types.Type) (string, bool) {
	t = types.Unalias(t)
	if nt, ok := t.(*types.Named); ok && nt.Obj().Pkg() != nil {
		return nt.Obj().Pkg().Path() + "." + nt.Obj().Name(), true
	}
	return "", false
}

func shortKey(k string) string {
	return strings.TrimPrefix(k, "github.com/vicanso/pike/")
}

func funcKey(f *ssa.Function) string {
	root := f
	for root.Parent() != nil {
		root = root.Parent()
	}
	pkg := ""
	if root.Pkg != nil {
		pkg = root.Pkg.Pkg.Path()
	} else if root.Signature.Recv() != nil {
		t := root.Signature.Recv().Type()
		if p, ok := t.(*types.Pointer); ok {
			t = p.Elem()
		}
		if nt, ok := t.(*types.Named); ok && nt.Obj().Pkg() != nil {
			pkg = nt.Obj().Pkg().Path()
		}
	}
	recv := ""
	if r := root.Signature.Recv(); r != nil {
		t := r.Type()
		if p, ok := t.(*types.Pointer); ok {
			t = p.Elem()
		}
		if nt, ok := t.(*types.Named); ok {
			recv = nt.Obj().Name() + "."
		}
	}
	return pkg + "." + recv + f.Name()
}

func methodKey(m *types.Func) string {
	sig := m.Type().(*types.Signature)
	recv := ""
	pkg := ""
	if m.Pkg() != nil {
		pkg = m.Pkg().Path()
	}
	if r := sig.Recv(); r != nil {
		t := r.Type()
		if p, ok := t.(*types.Pointer); ok {
			t = p.Elem()
		}
		if nt, ok := t.(*types.Named); ok {
			recv = nt.Obj().Name() + "."
			if nt.Obj().Pkg() != nil {
				pkg = nt.Obj().Pkg().Path()
			} else {
				pkg = ""
			}
		}
	}
	if pkg == "" {
		return recv + m.Name()
	}
	return pkg + "." + recv + m.Name()
}
