#!/usr/bin/env python3
"""tools/replay_search.py <property-id> <file-with-check-output>
After a check reported violations: for every violated obligation whose function has a bounded search
(a generator of concrete inputs plus the oracle of the property, run on the REAL code of the tree
under check via `go test -overlay`), look for a concrete failing input. The solvers rarely return a
model here (quantified heap axioms end in 'unknown'), so this search is what stands in for "replay
the counterexample on the real code".
The output of the check is echoed. The VIOLATION line of an obligation for which an input was found
is rewritten: its replay file becomes the one that carries the input and the observed behaviour, and
the no-failing-input-found suffix is dropped. Finding nothing changes nothing."""
import sys, os, re, json, subprocess, tempfile

pid, outfile = sys.argv[1], sys.argv[2]
verif = os.environ.get("PIKEVC_VERIF", "/verif")
repo = os.environ.get("PIKEVC_REPO", "/repo")
outdir = os.environ.get("PIKEVC_OUT", os.path.join(verif, "out"))
FORMAT = "TestBoundedFormat"
TABLE = "TestBoundedDecisionTable"
CODECS = "TestBoundedCodecs"
ROUTING = "TestBoundedRouting"
SEARCH = [  # obligation-name prefix -> bounded search
    ("cache.NewDispatcher/", "TestBoundedNewDispatcher"), ("cache.newHTTPLRUCache/", "TestBoundedNewDispatcher"),
    ("cache.convertConfigs/", "TestBoundedConfiguredPeriod"), ("cache.dispatcher.GetHitForPass/", "TestBoundedConfiguredPeriod"),
    ("cache.httpCache.HitForPass/atunlock:ttl", "TestBoundedHitForPassTTL"), ("cache.httpCache.HitForPass/lockinv:expiry", "TestBoundedHitForPassTTL"),
    ("cache.httpCache.Bytes/", FORMAT), ("cache.httpCache.FromBytes/", FORMAT), ("cache.HTTPResponse.Bytes/", FORMAT),
    ("cache.HTTPResponse.FromBytes/", FORMAT), ("cache.readUint32ToInt/", FORMAT), ("cache.readUint64ToInt64/", FORMAT),
    ("cache.uint32ToBytes/", FORMAT), ("cache.uint64ToBytes/", FORMAT), ("lemma/entry-", FORMAT), ("lemma/resp-", FORMAT),
    ("cache.HTTPResponse.getBodyByAcceptEncoding/", TABLE), ("cache.HTTPResponse.shouldCompressed/", TABLE),
    ("cache.HTTPResponse.GetRawBody/", TABLE), ("cache.HTTPResponse.Compress/", TABLE),
    ("server.requestIsPass/", "TestBoundedRequestIsPass"), ("server.getCacheMaxAge/", "TestBoundedCacheMaxAge"), ("lemma/nocache-ci", "TestBoundedCacheMaxAge"),
    ("location.Location.Match/", ROUTING), ("location.Location.getPriority/", ROUTING), ("location.Locations.Get/", ROUTING),
    ("location.Locations.Set/", "TestBoundedSortLocations"),
    ("compress.gzipFn/", CODECS), ("compress.doGzip/", CODECS), ("compress.brotliEncode/", CODECS), ("compress.doBrotli/", CODECS),
    ("compress.doLZ4Decode/", CODECS), ("compress.doZSTDDecode/", CODECS), ("compress.doSnappyDecode/", CODECS),
    ("compress.doGunzip/", CODECS), ("compress.doBrotliDecode/", CODECS),
    ("location.generateURLRewriter/", "TestBoundedRewriter"), ("location.Location.AddQuery/", "TestBoundedAddQuery"),
]
lines = open(outfile).read().splitlines()
obls = []
for l in lines:
    m = re.match(r"VIOLATION property=\S+ replay=\S+ obligation=(\S+)", l)
    if m and not m.group(1).startswith("bounded/"):
        obls.append(m.group(1))
tests = {}
for o in obls:
    for pre, t in SEARCH:
        if o.startswith(pre):
            tests.setdefault(t, []).append(o)
            break
found = {}
if tests:
    rx = "^(" + "|".join(sorted(tests)) + ")$"
    with tempfile.NamedTemporaryFile("w", suffix=".json", delete=False) as tf:
        pass
    subprocess.run([sys.executable, os.path.join(verif, "tools", "bounded.py"), "-json", tf.name, rx], capture_output=True, text=True,
                   env=dict(os.environ, PIKEVC_REPO=repo, PIKEVC_VERIF=verif))
    try:
        res = json.load(open(tf.name))
    except Exception:
        res = {}
    os.unlink(tf.name)
    for f in res.get("failed", []):
        if f["test"] not in tests:
            continue
        group = tests[f["test"]]
        rdir = os.path.join(outdir, "replay", pid)
        os.makedirs(rdir, exist_ok=True)
        path = os.path.join(rdir, re.sub(r"[^A-Za-z0-9_.-]", "_", group[0]) + ".input.json")
        json.dump({"property": pid, "obligation": group[0], "other_failed_obligations_covered_by_the_same_search": group[1:],
                   "found_by": "bounded search " + f["test"] + " on the real code (go test -overlay; nothing written into the tree)",
                   "failing_input_and_observed_behaviour": f["output"]}, open(path, "w"), indent=1)
        for o in group:
            found[o] = (path, f["test"])
for l in lines:
    m = re.match(r"VIOLATION property=(\S+) replay=(\S+) obligation=(\S+) (.*?)( no-failing-input-found)?$", l)
    if m and m.group(3) in found:
        path, test = found[m.group(3)]
        try:
            d = json.load(open(path))
            d.setdefault("solver_side_reports", []).append(m.group(2))
            json.dump(d, open(path, "w"), indent=1)
        except Exception:
            pass
        print(f"VIOLATION property={m.group(1)} replay={path} obligation={m.group(3)} {m.group(4)}; failing input found on the real code by {test}")
    else:
        print(l)
