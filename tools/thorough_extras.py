#!/usr/bin/env python3
"""tools/thorough_extras.py <property-id>
Second half of the thorough tier (after `pikevc check <id> thorough` has written the evidence file):
 1. bounded stand-ins / bounded validation of the assumed contracts this property leans on, run on the
    real code and the real libraries (tools/bounded.py); a failing bounded test is a concrete input
    that refutes an assumed contract or a trusted pike function -> VIOLATION with that input;
 2. the must-fail corpus: every seeded change recorded for this property must still be detected
    (a miss is reported as SELFTEST-MISS and recorded; it does not change the verdict on the tree).
Results are merged into evidence/<id>.json under coverage.bounded / coverage.must_fail_corpus.
Bounded results are labelled bounded and are never added to the discharged count."""
import sys, os, json, subprocess, tempfile, glob, time
pid = sys.argv[1]
quick = len(sys.argv) > 2 and sys.argv[2] == "--quick"
verif = os.environ.get("PIKEVC_VERIF", "/verif")
repo = os.environ.get("PIKEVC_REPO", "/repo")
outdir = os.environ.get("PIKEVC_OUT", os.path.join(verif, "out"))
BOUNDED = {
    "C01": "TestBoundedLRU", "C06": "TestBoundedLRU", "C18": "TestBoundedLRU",
    "C11": "TestBoundedLRU|TestBoundedNewDispatcher",
    "C07": "TestBoundedHitForPassTTL|TestBoundedConfiguredPeriod",
    "C05": "TestBoundedCodecs|TestBoundedHeaderModel|TestBoundedDecisionTable", "C12": "TestBoundedCodecs",
    "C13": "TestBoundedCodecs|TestBoundedDecisionTable",
    "C15": "TestBoundedAddQuery|TestBoundedMergeHeader|TestBoundedRewriter|TestBoundedHeaderModel",
    "C14": "TestBoundedSortLocations|TestBoundedRouting",
    "C03": "TestBoundedHeaderModel|TestBoundedRequestIsPass|TestBoundedCacheMaxAge|TestBoundedMergeHeader",
    "C09": "TestBoundedJSONHeader|TestBoundedBufferAlgebra|TestBoundedRegexpString|TestBoundedFormat",
    "C08": "TestBoundedJSONHeader|TestBoundedBufferAlgebra|TestBoundedFormat", "C10": "TestBoundedBufferAlgebra|TestBoundedFormat",
    "C17": "TestBoundedYAML",
}
# quick tier: only the stand-ins of TRUSTED pike functions (where the contracts are blind), a few seconds
QUICK_BOUNDED = {"C15": "TestBoundedAddQuery|TestBoundedMergeHeader", "C03": "TestBoundedMergeHeader"}
if quick:
    BOUNDED = QUICK_BOUNDED
    if pid not in BOUNDED:
        sys.exit(0)
evp = os.path.join(os.environ["PIKEVC_OUT"], "evidence", pid + ".json") if os.environ.get("PIKEVC_OUT") else os.path.join(verif, "evidence", pid + ".json")
ev = json.load(open(evp))
rc = 0
lines = []
t0 = time.time()
# 1. bounded
rx = BOUNDED.get(pid)
bres = {"tests": [], "failed": []}
if rx:
    with tempfile.NamedTemporaryFile("w", suffix=".json", delete=False) as tf:
        pass
    subprocess.run([sys.executable, os.path.join(verif, "tools", "bounded.py"), "-json", tf.name, rx],
                   capture_output=True, text=True, env=dict(os.environ, PIKEVC_REPO=repo, PIKEVC_VERIF=verif))
    try:
        bres = json.load(open(tf.name))
    except Exception as e:
        bres = {"tests": [], "failed": [{"package": "?", "test": "(runner)", "output": str(e)}]}
    os.unlink(tf.name)
    for f in bres["failed"]:
        rdir = os.path.join(outdir, "replay", pid)
        os.makedirs(rdir, exist_ok=True)
        path = os.path.join(rdir, "bounded_" + f["test"].replace("/", "_") + ".json")
        json.dump({"property": pid, "obligation": "bounded/" + f["test"], "kind": "bounded stand-in / validation of an assumed contract on the real code",
                   "failing_input_and_output": f["output"]}, open(path, "w"), indent=1)
        lines.append(f"VIOLATION property={pid} replay={path} obligation=bounded/{f['test']} an assumed contract or trusted function is refuted by a concrete input on the real code")
        rc = 1
# 2. must-fail corpus of this property
corpus = []
if not quick and os.environ.get("PIKEVC_REPO", "/repo") == "/repo" and not os.environ.get("VERIF_SKIP_SELFTEST"):
    names = []
    for d in sorted(glob.glob(os.path.join(verif, "seeded", "*"))):
        try:
            m = json.load(open(os.path.join(d, "meta.json")))
        except Exception:
            continue
        if pid in (m.get("detected_by") or []) and m.get("breaks_property") == pid:
            names.append(os.path.basename(d))
    if names:
        p = subprocess.run([sys.executable, os.path.join(verif, "tools", "selftest.py"), "-j", "2", "-only-prop", pid] + names,
                           capture_output=True, text=True)
        for l in p.stdout.splitlines():
            parts = l.split()
            if len(parts) >= 2 and parts[0] in ("ok", "MISSED", "skip"):
                corpus.append({"seed": parts[1], "result": parts[0], "detail": " ".join(parts[2:])})
                if parts[0] == "MISSED":
                    lines.append(f"SELFTEST-MISS property={pid} seeded change {parts[1]} is no longer detected")
cov = ev.setdefault("coverage", {})
cov["bounded"] = {"label": "bounded - never counted as proved", "tests": bres["tests"], "failed": [f["test"] for f in bres["failed"]]}
if not quick:
    cov["must_fail_corpus"] = corpus
ev["wall_s"] = round(ev.get("wall_s", 0) + time.time() - t0, 1)
json.dump(ev, open(evp, "w"), indent=1)
for l in lines:
    print(l)
print(f"extras property={pid} bounded_tests={len(bres['tests'])} bounded_failed={len(bres['failed'])} must_fail_seeds={len(corpus)} missed={sum(1 for c in corpus if c['result']=='MISSED')}")
sys.exit(rc)
