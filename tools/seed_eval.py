#!/usr/bin/env python3
"""tools/seed_eval.py <seed_src_dir> <seed_name> <property> <demo_pkg_dir> <run_regex> [extra props...]
Confirms a seeded change (patch.diff + demo_test.go) in a scratch copy of /repo:
 demo passes without the patch, fails with it; the baseline suite still passes with it;
then runs the property check(s) against the patched copy and records everything in
/verif/seeded/<seed_name>/meta.json. Nothing is written into /repo."""
import sys, os, subprocess, shutil, tempfile, json, glob, time
src, name, prop, pkg, rx = sys.argv[1:6]
props = [prop] + sys.argv[6:]
race = "-race " if os.environ.get("SEED_RACE") else ""
env = dict(os.environ, GOFLAGS="-mod=mod", GOPROXY="off", GOSUMDB="off", GOTOOLCHAIN="local")
dst = f"/verif/seeded/{name}"
os.makedirs(dst, exist_ok=True)
for f in glob.glob(os.path.join(src, "*")):
    if os.path.isfile(f):
        shutil.copy(f, dst)
scratch = tempfile.mkdtemp(prefix="pikeseed.")
def run(cmd, cwd=scratch, timeout=900):
    p = subprocess.run(cmd, shell=True, cwd=cwd, env=env, capture_output=True, text=True, timeout=timeout)
    return p.returncode, (p.stdout + p.stderr)[-3000:]
meta = {"breaks_property": prop, "source": "independent sub-agent given only the property text and a scratch worktree", "ran": []}
try:
    run(f"rsync -a --exclude .git --exclude web --exclude docs /repo/ {scratch}/", cwd="/")
    demos = [f for f in glob.glob(os.path.join(dst, "*_test.go"))]
    for d in demos:
        shutil.copy(d, os.path.join(scratch, pkg))
    rc0, out0 = run(f"go test {race}-vet=off -count=1 -timeout 180s -run '{rx}' ./{pkg}/")
    meta["demo_without_change"] = "PASS" if rc0 == 0 else "FAIL"
    meta["ran"].append(f"go test -run '{rx}' ./{pkg}/ (clean): rc={rc0}")
    rc, out = run(f"patch -p1 -s < {dst}/patch.diff")
    if rc != 0:
        meta["error"] = "patch does not apply: " + out
        raise SystemExit
    rcb, outb = run("go build ./...")
    meta["compiles"] = rcb == 0
    rc1, out1 = run(f"go test {race}-vet=off -count=1 -timeout 180s -run '{rx}' ./{pkg}/")
    meta["demo_with_change"] = "PASS" if rc1 == 0 else "FAIL"
    meta["demo_output_with_change"] = out1[-1200:]
    meta["ran"].append(f"go test -run '{rx}' ./{pkg}/ (patched): rc={rc1}")
    for d in demos:
        os.remove(os.path.join(scratch, pkg, os.path.basename(d)))
    rcs, outs = run("go test -vet=off -count=1 -timeout 600s ./cache/ ./server/ ./location/ ./compress/ ./util/ ./app/ && go test -vet=off -count=1 -skip 'TestEtcdClient|TestNewMongoStore|TestUpstreamServer|TestNewRedisStore' ./upstream/ && flock /tmp/pike_store_test.lock go test -vet=off -count=1 -skip 'TestEtcdClient|TestNewMongoStore|TestUpstreamServer|TestNewRedisStore' ./store/ ./config/")
    meta["baseline_suite_with_change"] = "PASS" if rcs == 0 else "FAIL"
    if rcs != 0:
        meta["baseline_output"] = outs[-1500:]
    meta["ran"].append(f"baseline suite (patched): rc={rcs}")
    meta["checks"] = {}
    outdir = tempfile.mkdtemp(prefix="pikeseedout.")
    for p in props:
        t0 = time.time()
        e2 = dict(env, PIKEVC_REPO=scratch, PIKEVC_OUT=outdir, PIKEVC_VERIF="/verif")
        pr = subprocess.run(["/verif/bin/check", p, "quick"], env=e2, capture_output=True, text=True, timeout=900)
        lines = [l.replace(scratch + "/", "") for l in pr.stdout.splitlines() if l.startswith(("VIOLATION", "PASS", "CHECK-ERROR", "KNOWN"))]
        meta["checks"][p] = {"exit": pr.returncode, "lines": [l[:400] for l in lines][:12], "wall_s": round(time.time() - t0, 1)}
    shutil.rmtree(outdir, ignore_errors=True)
    meta["detected_by"] = [p for p in props if meta["checks"][p]["exit"] == 1]
finally:
    shutil.rmtree(scratch, ignore_errors=True)
    readme = os.path.join(dst, "README.txt")
    if os.path.exists(readme):
        meta["needs_to_manifest"] = "see README.txt"
    json.dump(meta, open(os.path.join(dst, "meta.json"), "w"), indent=1)
    print(json.dumps({k: meta.get(k) for k in ["demo_without_change", "demo_with_change", "compiles", "baseline_suite_with_change", "detected_by", "error"]}))
    for p, c in meta.get("checks", {}).items():
        for l in c["lines"][:6]:
            print("  ", p, l[:220])
