#!/bin/bash
# tools/mutant.sh <patch-or-'sed:file:expr'> -- <pikevc args...>
# Runs pikevc against a scratch copy of /repo with a change applied; the copy is removed afterwards.
set -u
chg="$1"; shift; [ "$1" = "--" ] && shift
d=$(mktemp -d /tmp/pikemut.XXXXXX)
trap 'rm -rf "$d"' EXIT
rsync -a --exclude .git --exclude web --exclude docs /repo/ "$d/"
case "$chg" in
  sed:*) f=$(echo "$chg" | cut -d: -f2); e=$(echo "$chg" | cut -d: -f3-); sed -i "$e" "$d/$f" ;;
  *) (cd "$d" && patch -p1 -s < "$chg") || { echo "patch failed"; exit 3; } ;;
esac
(cd "$d" && GOFLAGS=-mod=mod GOPROXY=off GOSUMDB=off go build ./... ) || { echo "mutant does not compile"; exit 3; }
PIKEVC_REPO="$d" PIKEVC_OUT="$d/.out" GOFLAGS=-mod=mod /verif/bin/pikevc "$@" 2>&1 | sed "s#$d/##g"
