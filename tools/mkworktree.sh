#!/bin/bash
# tools/mkworktree.sh <name>  -> creates /tmp/wt_<name>: a scratch worktree of /repo HEAD without the contract files
set -eu
n="$1"; d="/tmp/wt_$n"
git -C /repo worktree add -q -f --detach "$d" HEAD
cd "$d"
git rm -q -f */contracts_verif.go
git -c user.name=builder -c user.email=b@x commit -q -m "scratch base (contracts removed)"
echo "$d"
