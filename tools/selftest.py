#!/usr/bin/env python3
"""tools/selftest.py [-j N] [-all] [name-substring ...]
Must-fail corpus: every seeded change under /verif/seeded/<name>/ (patch.diff + meta.json) that a check
is recorded to detect is applied to a scratch copy of /repo and the detecting check is re-run against
that copy; the run must exit 1 with a VIOLATION line. With -all every recorded detecting property is
re-run, otherwise only the first. Nothing is written into /repo; scratch copies live under /tmp and
are removed. Exit 0 iff every expected detection still happens (and the unchanged tree is not needed)."""
import sys, os, json, glob, subprocess, tempfile, shutil, time
from concurrent.futures import ThreadPoolExecutor

args = sys.argv[1:]
jobs = 4
allprops = False
onlyprop = None
subs = []
i = 0
while i < len(args):
    if args[i] == "-j":
        jobs = int(args[i + 1]); i += 2; continue
    if args[i] == "-all":
        allprops = True; i += 1; continue
    if args[i] == "-only-prop":
        onlyprop = args[i + 1]; i += 2; continue
    subs.append(args[i]); i += 1

env = dict(os.environ, GOFLAGS="-mod=mod", GOPROXY="off", GOSUMDB="off", GOTOOLCHAIN="local")

def one(seed):
    name = os.path.basename(seed)
    meta = json.load(open(os.path.join(seed, "meta.json")))
    props = meta.get("detected_by") or []
    if not props:
        return name, "skip", "no check is recorded to detect this change"
    if onlyprop:
        props = [p for p in props if p == onlyprop]
    elif not allprops:
        props = props[:1]
    scratch = tempfile.mkdtemp(prefix="pikeself.")
    out = tempfile.mkdtemp(prefix="pikeselfout.")
    try:
        subprocess.run(f"rsync -a --exclude .git --exclude web --exclude docs /repo/ {scratch}/", shell=True, check=True)
        p = subprocess.run(f"patch -p1 -s < {seed}/patch.diff", shell=True, cwd=scratch, capture_output=True, text=True)
        if p.returncode != 0:
            return name, "skip", "patch no longer applies to the current tree"
        b = subprocess.run("go build ./...", shell=True, cwd=scratch, env=env, capture_output=True, text=True)
        if b.returncode != 0:
            return name, "skip", "patched tree does not compile"
        res = []
        ok = True
        for pr in props:
            e2 = dict(env, PIKEVC_REPO=scratch, PIKEVC_OUT=out, PIKEVC_VERIF="/verif")
            t0 = time.time()
            r = subprocess.run(["/verif/bin/check", pr, "quick"], env=e2, capture_output=True, text=True, timeout=1200)
            viol = [l for l in r.stdout.splitlines() if l.startswith("VIOLATION")]
            hit = r.returncode == 1 and len(viol) > 0
            ok = ok and hit
            res.append(f"{pr}:{'detected' if hit else 'MISSED(rc=%d)' % r.returncode} {time.time() - t0:.0f}s")
        return name, "ok" if ok else "MISSED", " ".join(res)
    finally:
        shutil.rmtree(scratch, ignore_errors=True)
        shutil.rmtree(out, ignore_errors=True)

seeds = sorted(d for d in glob.glob("/verif/seeded/*") if os.path.exists(os.path.join(d, "meta.json")) and os.path.exists(os.path.join(d, "patch.diff")))
if subs:
    seeds = [s for s in seeds if any(x == os.path.basename(s) or (not onlyprop and x in os.path.basename(s)) for x in subs)]
bad = 0
with ThreadPoolExecutor(max_workers=jobs) as ex:
    for name, st, info in ex.map(one, seeds):
        print(f"{st:7s} {name:45s} {info}", flush=True)
        if st == "MISSED":
            bad += 1
print(f"selftest: {len(seeds)} seeded changes, {bad} missed")
sys.exit(1 if bad else 0)
