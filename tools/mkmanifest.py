#!/usr/bin/env python3
"""Regenerates /verif/MANIFEST.json from props/*.json and tools/manifest_meta.json."""
import json, os, glob, subprocess
here = os.path.dirname(os.path.dirname(os.path.abspath(__file__)))
meta = json.load(open(os.path.join(here, "tools", "manifest_meta.json")))
props = [json.loads(l) for l in open(os.path.join(here, "properties.jsonl"))]
claimed = {}
for f in sorted(glob.glob(os.path.join(here, "props", "C*.json"))):
    p = json.load(open(f))
    claimed[p["id"]] = p
checks, na = [], []
for p in props:
    pid = p["id"]
    m = meta["properties"].get(pid, {})
    if pid in claimed and not m.get("not_applicable"):
        checks.append({
            "property_id": pid,
            "quick_cmd": f"bin/check {pid} quick",
            "thorough_cmd": f"bin/check {pid} thorough",
            "evidence_file": f"/verif/evidence/{pid}.json",
            "replay_cmd_template": "cat {path}",
            "engine": "pikevc",
            "level_claimed": {"category": "proof", "text": m.get("level_text", claimed[pid].get("explanation", "")), "design_ref": m.get("design_ref", "DESIGN.md §6 " + pid)},
            "level_note": m.get("level_note", "; ".join(claimed[pid].get("trusted_base", []) + claimed[pid].get("assumptions", []))),
            "technique": m.get("technique", "contract-based deductive verification: weakest-precondition VCs generated from go/ssa of the real functions, discharged by z3/cvc5"),
        })
    else:
        na.append({"property_id": pid, "reason": m.get("not_applicable", "not built yet: the contracts for this property's functions are not written; no claim is made")})
src = []
try:
    out = subprocess.run(["git", "-C", "/repo", "log", "--format=%H %s"], capture_output=True, text=True).stdout
    for line in out.splitlines():
        h, s = line.split(" ", 1)
        if s.startswith("verif:"):
            src.append(h)
except Exception:
    pass
man = {
    "version": 1,
    "setup_cmd": "cd /verif/engine && GOFLAGS=-mod=vendor GOPROXY=off GOSUMDB=off GOTOOLCHAIN=local go build -o /verif/bin/pikevc ./cmd/pikevc",
    "hooks": {
        "guard": "verif",
        "enable": "go/packages loads /repo with -tags=verif; the guarded files (*/contracts_verif.go) contain only //@ contract comments, no declarations",
        "baseline_off_cmd": "cd /repo && GOFLAGS=-mod=mod GOPROXY=off GOSUMDB=off go test -vet=off -count=1 -timeout 25m ./...",
        "source_commits": src,
        "add_only": True,
    },
    "engines": [{"name": "pikevc", "path": "/verif/engine", "serves_properties": [c["property_id"] for c in checks],
                 "kind_free_text": "self-built deductive verifier for Go: contracts as //@ comments, VC generation from go/ssa (passive block equations, field-map heap, lock invariants, loop invariants), solver portfolio z3 4.8.12 / z3 5.1.0 / cvc5 1.0"}],
    "checks": checks,
    "not_applicable": na,
    "notes": meta.get("notes", ""),
}
json.dump(man, open(os.path.join(here, "MANIFEST.json"), "w"), indent=1)
print("MANIFEST.json:", len(checks), "checks,", len(na), "not_applicable")
