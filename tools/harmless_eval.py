#!/usr/bin/env python3
"""tools/harmless_eval.py <dir-with-k/patch.diff> [props...]
Applies each behaviour-preserving patch to a scratch copy of /repo and runs the property checks
against it; any VIOLATION is a false alarm to be investigated. Nothing is written into /repo."""
import sys, os, glob, subprocess, tempfile, shutil, json
from concurrent.futures import ThreadPoolExecutor
src = sys.argv[1]
props = sys.argv[2:] or [json.loads(l)["id"] for l in open("/verif/properties.jsonl")]
only = os.environ.get("HARMLESS_ONLY")
SRC = os.environ.get("HARMLESS_REPO", "/repo")
VERIF = os.environ.get("HARMLESS_VERIF", "/verif")
env = dict(os.environ, GOFLAGS="-mod=mod", GOPROXY="off", GOSUMDB="off", GOTOOLCHAIN="local")
def one(pd):
    k = os.path.basename(os.path.dirname(pd))
    scratch = tempfile.mkdtemp(prefix="pikeharm.")
    out = tempfile.mkdtemp(prefix="pikeharmout.")
    res = []
    try:
        subprocess.run(f"rsync -a --exclude .git --exclude web --exclude docs {SRC}/ {scratch}/", shell=True, check=True)
        p = subprocess.run(f"patch -p1 -s < {pd}", shell=True, cwd=scratch, capture_output=True, text=True)
        if p.returncode != 0:
            return k, ["patch does not apply: " + p.stdout[-200:]]
        if subprocess.run("go build ./...", shell=True, cwd=scratch, env=env, capture_output=True).returncode != 0:
            return k, ["does not compile"]
        for pr in props:
            e2 = dict(env, PIKEVC_REPO=scratch, PIKEVC_OUT=out, PIKEVC_VERIF=VERIF)
            r = subprocess.run([VERIF + "/bin/check", pr, "quick"], env=e2, capture_output=True, text=True, timeout=1800)
            for l in r.stdout.splitlines():
                if l.startswith(("VIOLATION", "CHECK-ERROR")):
                    res.append(l.replace(scratch + "/", "")[:330])
            if r.returncode not in (0, 1):
                res.append(f"{pr}: exit {r.returncode}")
        return k, res
    finally:
        shutil.rmtree(scratch, ignore_errors=True); shutil.rmtree(out, ignore_errors=True)
patches = sorted(glob.glob(os.path.join(src, "*", "patch.diff")), key=lambda p: int(os.path.basename(os.path.dirname(p))))
if only:
    patches = [p for p in patches if os.path.basename(os.path.dirname(p)) in only.split(",")]
bad = 0
with ThreadPoolExecutor(max_workers=2) as ex:
    for k, res in ex.map(one, patches):
        print(f"edit {k}: {'clean' if not res else 'ALARMS'}", flush=True)
        for l in res:
            print("   ", l); bad += 1
print("false alarms:", bad)
