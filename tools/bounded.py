#!/usr/bin/env python3
"""tools/bounded.py [-json out.json] [name-regex]
Bounded stand-ins and bounded validation of ASSUMED library contracts (never counted as proved).
The tests live in /verif/bounded/<pkg>/*_test.go and are injected into the pike package <pkg> of the
tree under check (PIKEVC_REPO or /repo) with `go test -overlay` - nothing is written into the tree.
Every test logs one line "BOUNDED <what>: <cases> ... <bound>"; a failing test is a refutation of an
assumed contract (or of a trusted pike function) by a concrete input."""
import sys, os, glob, json, subprocess, tempfile, re
repo = os.environ.get("PIKEVC_REPO", "/repo")
verif = os.environ.get("PIKEVC_VERIF", "/verif")
args = sys.argv[1:]
out = None
if args[:1] == ["-json"]:
    out = args[1]; args = args[2:]
rx = args[0] if args else "TestBounded"
env = dict(os.environ, GOFLAGS="-mod=mod", GOPROXY="off", GOSUMDB="off", GOTOOLCHAIN="local")
res = {"tests": [], "failed": []}
for pkgdir in sorted(glob.glob(os.path.join(verif, "bounded", "*"))):
    if not os.path.isdir(pkgdir):
        continue
    pkg = os.path.basename(pkgdir)
    files = sorted(glob.glob(os.path.join(pkgdir, "*_test.go")))
    if not files:
        continue
    ov = {"Replace": {os.path.join(repo, pkg, "zz_bounded_" + os.path.basename(f)): f for f in files}}
    with tempfile.NamedTemporaryFile("w", suffix=".json", delete=False) as tf:
        json.dump(ov, tf)
    try:
        p = subprocess.run(["go", "test", "-overlay", tf.name, "-vet=off", "-count=1", "-timeout", "600s", "-run", rx, "-v", "./" + pkg + "/"],
                           cwd=repo, env=env, capture_output=True, text=True)
    finally:
        os.unlink(tf.name)
    txt = p.stdout + p.stderr
    for m in re.finditer(r"BOUNDED ([^\n]*)", txt):
        res["tests"].append({"package": pkg, "what": m.group(1).strip()})
    for m in re.finditer(r"--- FAIL: (\S+)", txt):
        res["failed"].append({"package": pkg, "test": m.group(1), "output": txt[-1500:]})
    if p.returncode != 0 and not re.search(r"--- FAIL", txt):
        res["failed"].append({"package": pkg, "test": "(build)", "output": txt[-1500:]})
if out:
    json.dump(res, open(out, "w"), indent=1)
for t in res["tests"]:
    print("bounded:", t["package"], t["what"])
for f in res["failed"]:
    print("BOUNDED-FAIL:", f["package"], f["test"])
    print(f["output"][-600:])
sys.exit(1 if res["failed"] else 0)
